(* The persistent part of the Core model: version records (file/<cid>) and
   content (fileContent/<cid> + file), related to the in-memory lists.
   InvKV: about version records.  InvKC: about contents; [InvKC_ex m D] is InvKC
   with the versions D "in flight" (unlinked, neither re-pushed nor queued yet). *)
From Coq Require Import List NArith Bool Lia Sorted.
From FsDb Require Import VList VListProofs Core Spec CoreLemmas CoreInv Refine.
Import ListNotations.
Open Scope N_scope.

Definition stale (m : mstate) (r : ver) : Prop :=
  v_tx r <> 0 \/
  exists w, In w (lget (m_all m) (v_key r)) /\ is_main w = true /\ v_seq r < v_seq w.

Record InvKV (m : mstate) : Prop := mkInvKV {
  k_listed : forall k v, In v (lget (m_all m) k) -> aget (m_kvf m) (v_cid v) = Some v;
  k_record : forall c r, aget (m_kvf m) c = Some r ->
      v_cid r = c /\ 0 < v_seq r /\ (v_tx r = 0 -> v_seq r <= m_seq m) /\ c < m_nextcid m /\
      (In r (lget (m_all m) (v_key r)) \/ stale m r);
  k_seq_inj : forall c1 c2 r1 r2, aget (m_kvf m) c1 = Some r1 -> aget (m_kvf m) c2 = Some r2 ->
      v_tx r1 = 0 -> v_tx r2 = 0 -> v_seq r1 = v_seq r2 -> c1 = c2;
  k_keys : NoDup (map fst (m_kvf m))
}.

Definition in_flight (D : list ver) (c : N) : Prop := exists d, In d D /\ v_cid d = c.

Record InvKC_ex (m : mstate) (D : list ver) : Prop := mkInvKC {
  k_cont_rec : forall c x, aget (m_cont m) c = Some x -> exists r, aget (m_kvf m) c = Some r;
  k_cont_live : forall c x, aget (m_cont m) c = Some x ->
      (exists k v, In v (lget (m_all m) k) /\ v_cid v = c) \/
      (exists job d, In job (m_q m) /\ In d job /\ v_cid d = c) \/
      in_flight D c
}.
Definition InvKC (m : mstate) : Prop := InvKC_ex m [].

Lemma InvK_init : InvKV m_init /\ InvKC m_init.
Proof.
  split; constructor; cbn; try (intros; discriminate); try (intros; contradiction). constructor.
Qed.

Lemma NoDup_keys_aset' {V} (s : list (N * V)) k v : NoDup (map fst s) -> NoDup (map fst (aset s k v)).
Proof.
  intros H. rewrite keys_aset. destruct (existsb (N.eqb k) (map fst s)) eqn:E; [exact H|].
  apply NoDup_snoc; [exact H|]. intros Hin. apply existsb_eqb_In in Hin. congruence.
Qed.

Lemma NoDup_keys_adel {V} (s : list (N * V)) k : NoDup (map fst s) -> NoDup (map fst (adel s k)).
Proof.
  unfold adel. induction s as [|x s IH]; intros H; [constructor|].
  cbn [map] in H. inversion H as [|? ? Hn Hnd]; subst. cbn [filter].
  destruct (negb (N.eqb (fst x) k)); cbn [map]; [|exact (IH Hnd)].
  constructor; [|exact (IH Hnd)]. intros Hin. apply Hn.
  apply in_map_iff in Hin. destruct Hin as (y & E & Hy). apply filter_In in Hy.
  apply in_map_iff. exists y. tauto.
Qed.

(* ---------- push_version ---------- *)
Lemma push_version_kvf m h k cid c :
  aget (m_kvf (push_version m h k cid)) c =
  if N.eqb c cid then Some (new_ver m h k cid) else aget (m_kvf m) c.
Proof. unfold push_version. cbn [m_kvf set_all set_tx set_kvf set_seq]. apply aget_aset. Qed.

Lemma In_all_push m h k cid k' v :
  In v (lget (m_all m) k') -> In v (lget (m_all (push_version m h k cid)) k').
Proof.
  intros H. rewrite push_version_all. destruct (N.eqb k' k) eqn:E; [|exact H].
  apply N.eqb_eq in E. subst k'. apply in_or_app. left. exact H.
Qed.

Lemma stale_push m h k cid r : stale m r -> stale (push_version m h k cid) r.
Proof.
  intros [H|(w & Hw & Hm & Hlt)]; [left; exact H|]. right. exists w.
  split; [apply In_all_push; exact Hw | auto].
Qed.

Lemma push_version_invKV m h k cid :
  Inv m -> InvKV m -> cid < m_nextcid m -> cid_free m cid -> InvKV (push_version m h k cid).
Proof.
  intros I K Hcid [Hfree _]. constructor.
  - intros k' v Hv. rewrite push_version_kvf. apply In_push_all in Hv.
    destruct Hv as [Hv|[-> ->]].
    + destruct (N.eqb_spec (v_cid v) cid) as [E|_]; [exfalso; exact (Hfree _ _ Hv E)|].
      apply (k_listed m K _ _ Hv).
    + cbn [new_ver v_cid]. rewrite N.eqb_refl. reflexivity.
  - intros c r. rewrite push_version_kvf.
    change (m_seq (push_version m h k cid)) with (N.succ (m_seq m)).
    change (m_nextcid (push_version m h k cid)) with (m_nextcid m).
    destruct (N.eqb_spec c cid) as [->|Hne].
    + intros E. injection E as <-. cbn [new_ver v_cid v_seq v_key v_tx]. repeat split; try lia.
      left. rewrite push_version_all, N.eqb_refl. apply in_or_app. right. left. reflexivity.
    + intros E. destruct (k_record m K c r E) as (H1 & H2 & H3 & H4 & H5).
      split; [exact H1|]. split; [exact H2|]. split; [intros Hm; specialize (H3 Hm); lia|]. split; [exact H4|].
      destruct H5 as [H5|H5]; [left; apply In_all_push; exact H5 | right; apply stale_push; exact H5].
  - intros c1 c2 r1 r2. rewrite !push_version_kvf.
    destruct (N.eqb_spec c1 cid) as [->|N1], (N.eqb_spec c2 cid) as [->|N2]; intros E1 E2 M1 M2 Es.
    + reflexivity.
    + injection E1 as <-. destruct (k_record m K c2 r2 E2) as (_ & _ & Hle & _). specialize (Hle M2). cbn in Es. lia.
    + injection E2 as <-. destruct (k_record m K c1 r1 E1) as (_ & _ & Hle & _). specialize (Hle M1). cbn in Es. lia.
    + apply (k_seq_inj m K c1 c2 r1 r2 E1 E2 M1 M2 Es).
  - unfold push_version. cbn [m_kvf set_all set_tx set_kvf set_seq]. apply NoDup_keys_aset'. apply (k_keys m K).
Qed.

(* pushing version [f]'s content id takes it out of the in-flight set *)
Lemma push_version_invKC m h k cid D :
  (forall c x, aget (m_cont m) c = Some x -> c <> cid ->
     (exists r, aget (m_kvf m) c = Some r) /\
     ((exists k0 v, In v (lget (m_all m) k0) /\ v_cid v = c) \/
      (exists job d, In job (m_q m) /\ In d job /\ v_cid d = c) \/ in_flight D c)) ->
  InvKC_ex (push_version m h k cid) D.
Proof.
  intros H. constructor.
  - intros c x Hc. change (m_cont (push_version m h k cid)) with (m_cont m) in Hc.
    rewrite push_version_kvf. destruct (N.eqb_spec c cid) as [->|Hne]; [eauto|].
    exact (proj1 (H c x Hc Hne)).
  - intros c x Hc. change (m_cont (push_version m h k cid)) with (m_cont m) in Hc.
    change (m_q (push_version m h k cid)) with (m_q m).
    destruct (N.eqb_spec c cid) as [->|Hne].
    + left. exists k, (new_ver m h k cid). split; [|reflexivity].
      rewrite push_version_all, N.eqb_refl. apply in_or_app. right. left. reflexivity.
    + destruct (proj2 (H c x Hc Hne)) as [(k0 & v & Hv & E)|[Hq|Hf]].
      * left. exists k0, v. split; [apply In_all_push; exact Hv | exact E].
      * right. left. exact Hq.
      * right. right. exact Hf.
Qed.

(* ---------- states that differ only in seq / reg / nexttx ---------- *)
Lemma InvKV_ext m m' :
  m_all m' = m_all m -> m_kvf m' = m_kvf m -> m_nextcid m' = m_nextcid m -> m_seq m <= m_seq m' ->
  InvKV m -> InvKV m'.
Proof.
  intros Ea Ek En Es K. constructor; unfold stale; rewrite ?Ea, ?Ek, ?En.
  - apply (k_listed m K).
  - intros c r E. destruct (k_record m K c r E) as (H1 & H2 & H3 & H4 & H5).
    split; [exact H1|]. split; [exact H2|]. split; [intros Hm; specialize (H3 Hm); lia|]. split; assumption.
  - apply (k_seq_inj m K).
  - apply (k_keys m K).
Qed.

Lemma InvKC_ext m m' D :
  m_all m' = m_all m -> m_kvf m' = m_kvf m -> m_cont m' = m_cont m -> m_q m' = m_q m ->
  InvKC_ex m D -> InvKC_ex m' D.
Proof.
  intros Ea Ek Ec Eq K. constructor; rewrite ?Ea, ?Ek, ?Ec, ?Eq; [apply (k_cont_rec m D K) | apply (k_cont_live m D K)].
Qed.

(* ---------- unlink ---------- *)
Lemma unlink_invKV m m1 h :
  Inv m -> InvKV m -> h <> 0 ->
  m_all m1 = m_all m -> m_tx m1 = m_tx m -> m_kvf m1 = m_kvf m ->
  m_seq m <= m_seq m1 -> m_nextcid m1 = m_nextcid m ->
  InvKV (unlink_tx m1 h).
Proof.
  intros I K Hh Ea Et Ek Es En.
  assert (A := fun k => unlink_all m m1 h k I Ea Et).
  assert (Ekvf : m_kvf (unlink_tx m1 h) = m_kvf m) by (unfold unlink_tx; cbn; exact Ek).
  assert (Eseq : m_seq (unlink_tx m1 h) = m_seq m1) by reflexivity.
  assert (Encid : m_nextcid (unlink_tx m1 h) = m_nextcid m) by (unfold unlink_tx; cbn; exact En).
  constructor; rewrite ?Ekvf, ?Eseq, ?Encid.
  - intros k v Hv. rewrite A in Hv. apply filter_In in Hv. apply (k_listed m K k v). tauto.
  - intros c r E. destruct (k_record m K c r E) as (H1 & H2 & H3 & H4 & H5).
    split; [exact H1|]. split; [exact H2|]. split; [intros Hm; specialize (H3 Hm); lia|]. split; [exact H4|].
    destruct H5 as [H5|H5].
    + destruct (N.eqb_spec (v_tx r) h) as [Eh|Nh].
      * right. left. congruence.
      * left. rewrite A. apply filter_In. split; [exact H5|]. unfold owned.
        destruct (N.eqb_spec (v_tx r) h); [contradiction | reflexivity].
    + right. destruct H5 as [H5|(w & Hw & Hm & Hlt)]; [left; exact H5|]. right. exists w.
      split; [|auto]. rewrite A. apply filter_In. split; [exact Hw|]. unfold owned, is_main in *.
      apply N.eqb_eq in Hm. rewrite Hm. destruct (N.eqb_spec 0 h); [congruence | reflexivity].
  - apply (k_seq_inj m K).
  - apply (k_keys m K).
Qed.

Lemma unlink_invKC m m1 h :
  Inv m -> InvKC m -> h <> 0 ->
  m_all m1 = m_all m -> m_tx m1 = m_tx m -> m_kvf m1 = m_kvf m -> m_cont m1 = m_cont m -> m_q m1 = m_q m ->
  InvKC_ex (unlink_tx m1 h) (tx_versions m h).
Proof.
  intros I K Hh Ea Et Ek Ec Eq.
  assert (A := fun k => unlink_all m m1 h k I Ea Et).
  constructor.
  - intros c x Hc. unfold unlink_tx in *. cbn [m_cont m_kvf set_all set_tx] in *. rewrite Ec in Hc. rewrite Ek.
    apply (k_cont_rec m [] K c x Hc).
  - intros c x Hc. assert (Hc' : aget (m_cont m) c = Some x) by (unfold unlink_tx in Hc; cbn in Hc; rewrite Ec in Hc; exact Hc).
    change (m_q (unlink_tx m1 h)) with (m_q m1). rewrite Eq.
    destruct (k_cont_live m [] K c x Hc') as [(k & v & Hv & E)|[Hq|(d & [] & _)]].
    + destruct (owned h v) eqn:Eo.
      * right. right. exists v. split; [|exact E]. apply (In_tx_versions m h v I). eauto.
      * left. exists k, v. split; [|exact E]. rewrite A. apply filter_In. rewrite Eo. auto.
    + right. left. exact Hq.
Qed.

(* ---------- enqueue ---------- *)
Lemma enqueue_invKV m job : InvKV m -> InvKV (enqueue m job).
Proof.
  intros K. destruct (enqueue_fields m job) as (E1 & _ & _ & E4 & _ & _ & E7).
  apply (InvKV_ext m); try assumption; [unfold enqueue; destruct job; reflexivity | rewrite E1; lia].
Qed.

Lemma In_q_enqueue m job j : job <> [] -> (In j (m_q m) \/ j = job) -> In j (m_q (enqueue m job)).
Proof.
  intros Hne H. unfold enqueue. destruct job; [contradiction|]. cbn. apply in_or_app.
  destruct H as [H| ->]; [left; exact H | right; left; reflexivity].
Qed.

Lemma enqueue_invKC m job D :
  InvKC_ex m D -> (forall d, In d D -> In d job) -> InvKC (enqueue m job).
Proof.
  intros K Hsub. destruct (enqueue_fields m job) as (_ & _ & _ & E4 & E5 & _ & _).
  assert (Ekvf : m_kvf (enqueue m job) = m_kvf m) by (unfold enqueue; destruct job; reflexivity).
  constructor; rewrite ?E4, ?E5, ?Ekvf.
  - apply (k_cont_rec m D K).
  - intros c x Hc. destruct (k_cont_live m D K c x Hc) as [H|[(j & d & Hj & Hd & E)|(d & Hd & E)]].
    + left. exact H.
    + right. left. exists j, d. split; [|auto].
      destruct job as [|d0 job']; [exact Hj|]. apply In_q_enqueue; [discriminate | left; exact Hj].
    + right. left. exists job, d. split; [|split; [apply Hsub; exact Hd | exact E]].
      apply In_q_enqueue; [|right; reflexivity]. intros En. specialize (Hsub d Hd). rewrite En in Hsub. exact Hsub.
Qed.

(* ---------- cleaner ---------- *)
Lemma clean_ver_kvf_sub m v c r :
  aget (m_kvf (clean_ver m v)) c = Some r -> aget (m_kvf m) c = Some r.
Proof.
  unfold clean_ver. destruct (aget (m_cont m) (v_cid v)); cbn [m_kvf set_cont set_kvf]; [|auto].
  rewrite aget_adel. destruct (N.eqb c (v_cid v)); [discriminate | auto].
Qed.

Lemma clean_ver_kvf_other m v c :
  c <> v_cid v -> aget (m_kvf (clean_ver m v)) c = aget (m_kvf m) c.
Proof.
  intros Hne. unfold clean_ver. destruct (aget (m_cont m) (v_cid v)); cbn [m_kvf set_cont set_kvf]; [|reflexivity].
  rewrite aget_adel. destruct (N.eqb_spec c (v_cid v)); [contradiction | reflexivity].
Qed.

Lemma clean_ver_kvf_keys m v : NoDup (map fst (m_kvf m)) -> NoDup (map fst (m_kvf (clean_ver m v))).
Proof.
  intros H. unfold clean_ver. destruct (aget (m_cont m) (v_cid v)); cbn [m_kvf set_cont set_kvf]; [|exact H].
  apply NoDup_keys_adel. exact H.
Qed.

Lemma clean_job_kvf_sub job : forall m c r,
  aget (m_kvf (clean_job m job)) c = Some r -> aget (m_kvf m) c = Some r.
Proof.
  induction job as [|v job IH]; intros m c r H; [exact H|].
  cbn [clean_job fold_left] in H. apply IH in H. apply clean_ver_kvf_sub in H. exact H.
Qed.

Lemma clean_job_kvf_other job : forall m c,
  (forall d, In d job -> v_cid d <> c) -> aget (m_kvf (clean_job m job)) c = aget (m_kvf m) c.
Proof.
  induction job as [|v job IH]; intros m c H; [reflexivity|].
  cbn [clean_job fold_left]. fold (clean_job (clean_ver m v) job).
  rewrite IH by (intros d Hd; apply H; right; exact Hd).
  apply clean_ver_kvf_other. intros E. apply (H v (or_introl eq_refl)). symmetry. exact E.
Qed.

Lemma clean_job_kvf_keys job : forall m, NoDup (map fst (m_kvf m)) -> NoDup (map fst (m_kvf (clean_job m job))).
Proof.
  induction job as [|v job IH]; intros m H; [exact H|].
  cbn [clean_job fold_left]. apply IH. apply clean_ver_kvf_keys. exact H.
Qed.

(* cleaning versions that are not listed keeps the record invariant *)
Lemma clean_job_invKV m job :
  InvKV m -> (forall d k v, In d job -> In v (lget (m_all m) k) -> v_cid v <> v_cid d) ->
  InvKV (clean_job m job).
Proof.
  intros K Hdis.
  destruct (clean_job_fields job m) as (E1 & _ & _ & E4 & _ & _ & E7). cbn zeta in *.
  constructor; unfold stale; rewrite ?E1, ?E4, ?E7.
  - intros k v Hv. rewrite clean_job_kvf_other; [apply (k_listed m K k v Hv)|].
    intros d Hd E. apply (Hdis d k v Hd Hv). symmetry. exact E.
  - intros c r E. apply clean_job_kvf_sub in E. destruct (k_record m K c r E) as (H1 & H2 & H3 & H4 & H5).
    repeat split; assumption.
  - intros c1 c2 r1 r2 H1 H2. apply clean_job_kvf_sub in H1. apply clean_job_kvf_sub in H2.
    apply (k_seq_inj m K c1 c2 r1 r2 H1 H2).
  - apply clean_job_kvf_keys. apply (k_keys m K).
Qed.

(* membership of a content id in the queue is decidable *)
Lemma classic_queue m c :
  (exists j d, In j (m_q m) /\ In d j /\ v_cid d = c) \/ ~ (exists j d, In j (m_q m) /\ In d j /\ v_cid d = c).
Proof.
  destruct (existsb (fun j => existsb (fun d => N.eqb (v_cid d) c) j) (m_q m)) eqn:E.
  - left. apply existsb_exists in E. destruct E as (j & Hj & E). apply existsb_exists in E.
    destruct E as (d & Hd & E). apply N.eqb_eq in E. eauto.
  - right. intros (j & d & Hj & Hd & Ec).
    assert (H : existsb (fun j0 => existsb (fun d0 => N.eqb (v_cid d0) c) j0) (m_q m) = true).
    { apply existsb_exists. exists j. split; [exact Hj|]. apply existsb_exists. exists d. split; [exact Hd|].
      apply N.eqb_eq. exact Ec. }
    congruence.
Qed.

(* ---------- drain ---------- *)
Lemma fold_clean_job_kvf_sub q : forall m c r,
  aget (m_kvf (fold_left clean_job q m)) c = Some r -> aget (m_kvf m) c = Some r.
Proof.
  induction q as [|j q IH]; intros m c r H; [exact H|].
  cbn [fold_left] in H. apply IH in H. apply clean_job_kvf_sub in H. exact H.
Qed.

Lemma fold_clean_job_kvf_other q : forall m c,
  (forall j d, In j q -> In d j -> v_cid d <> c) ->
  aget (m_kvf (fold_left clean_job q m)) c = aget (m_kvf m) c.
Proof.
  induction q as [|j q IH]; intros m c H; [reflexivity|].
  cbn [fold_left]. rewrite IH by (intros j' d Hj Hd; apply (H j' d); [right; exact Hj | exact Hd]).
  apply clean_job_kvf_other. intros d Hd. apply (H j d); [left; reflexivity | exact Hd].
Qed.

Lemma fold_clean_job_kvf_keys q : forall m,
  NoDup (map fst (m_kvf m)) -> NoDup (map fst (m_kvf (fold_left clean_job q m))).
Proof.
  induction q as [|j q IH]; intros m H; [exact H|]. cbn [fold_left]. apply IH. apply clean_job_kvf_keys. exact H.
Qed.

Lemma fold_clean_job_cont_none q : forall m c,
  (exists j d, In j q /\ In d j /\ v_cid d = c) -> aget (m_cont (fold_left clean_job q m)) c = None.
Proof.
  induction q as [|j q IH]; intros m c (j0 & d & Hj & Hd & E); [destruct Hj|].
  cbn [fold_left]. destruct Hj as [<-|Hj].
  - (* cleaned by this job; later jobs only remove *)
    assert (H0 : aget (m_cont (clean_job m j)) c = None).
    { rewrite clean_job_cont.
      assert (Ex : existsb (fun d0 => N.eqb c (v_cid d0)) j = true).
      { apply existsb_exists. exists d. split; [exact Hd | rewrite E; apply N.eqb_refl]. }
      rewrite Ex. reflexivity. }
    clear -H0. revert H0. generalize (clean_job m j). induction q as [|j' q IH']; intros m0 H0; [exact H0|].
    cbn [fold_left]. apply IH'. rewrite clean_job_cont. rewrite H0. destruct (existsb _ j'); reflexivity.
  - apply IH. eauto.
Qed.

Lemma drain_invK m : Inv m -> InvKV m -> InvKC m -> InvKV (drain m) /\ InvKC (drain m).
Proof.
  intros I KV KC. unfold drain.
  destruct (fold_clean_job_fields (m_q m) (set_q m [])) as (E1 & _ & _ & E4 & E5 & _ & E7). cbn zeta in *.
  split.
  - constructor; unfold stale; rewrite ?E1, ?E4, ?E7; cbn [m_seq m_all m_nextcid set_q].
    + intros k v Hv. rewrite fold_clean_job_kvf_other; [apply (k_listed m KV k v Hv)|].
      intros j d Hj Hd E. destruct (inv_queue m I j d Hj Hd) as [_ Hne]. apply (Hne k v Hv). symmetry. exact E.
    + intros c r E. apply fold_clean_job_kvf_sub in E. destruct (k_record m KV c r E) as (H1 & H2 & H3 & H4 & H5).
      repeat split; assumption.
    + intros c1 c2 r1 r2 H1 H2. apply fold_clean_job_kvf_sub in H1. apply fold_clean_job_kvf_sub in H2.
      apply (k_seq_inj m KV c1 c2 r1 r2 H1 H2).
    + apply fold_clean_job_kvf_keys. apply (k_keys m KV).
  - assert (Hc : forall c x, aget (m_cont (fold_left clean_job (m_q m) (set_q m []))) c = Some x ->
                 aget (m_cont m) c = Some x /\ ~ (exists j d, In j (m_q m) /\ In d j /\ v_cid d = c)).
    { intros c x Hx. split.
      - destruct (classic_queue m c) as [Hin|Hnot].
        + rewrite fold_clean_job_cont_none in Hx by exact Hin. discriminate.
        + rewrite fold_clean_job_cont in Hx; [exact Hx|].
          intros j d Hj Hd E. apply Hnot. eauto.
      - intros Hin. rewrite fold_clean_job_cont_none in Hx by exact Hin. discriminate. }
    constructor.
    + intros c x Hx. destruct (Hc c x Hx) as [Hx' Hnq].
      destruct (k_cont_rec m [] KC c x Hx') as [r Hr]. exists r.
      rewrite fold_clean_job_kvf_other; [exact Hr|]. intros j d Hj Hd E. apply Hnq. eauto.
    + intros c x Hx. destruct (Hc c x Hx) as [Hx' Hnq]. rewrite E4, E5. cbn [m_all m_q set_q].
      destruct (k_cont_live m [] KC c x Hx') as [H|[H|(d & [] & _)]]; [left; exact H | contradiction].
Qed.

(* ---------- garbage collection ---------- *)
Lemma gc_kvf_view m :
  Inv m ->
  exists m2, gc m = clean_job m2 (gc_deleted m) /\ m_kvf m2 = m_kvf m /\ m_cont m2 = m_cont m.
Proof.
  intros I. rewrite gc_unfold. cbn zeta.
  destruct (gc_m0_fields m) as (_ & _ & Et & Ea & Ec & _ & _ & _ & Ek). cbn zeta in *.
  eexists. split; [|split].
  - f_equal. unfold gc_deleted, gc_deleted_of. rewrite Ea, Et. apply flat_map_ext. intros a.
    rewrite (inv_stores m I). reflexivity.
  - cbn [m_kvf set_all set_tx]. exact Ek.
  - cbn [m_cont set_all set_tx]. exact Ec.
Qed.

Lemma gc_deleted_in_all m d :
  Inv m -> In d (gc_deleted m) ->
  In d (lget (m_all m) (v_key d)) /\ is_main d = true /\ gc_keep (lget (m_all m) (v_key d)) (gc_horizon m) d = false.
Proof.
  intros I Hd. apply (In_gc_deleted m d I) in Hd.
  assert (Hm : In d (filter is_main (lget (m_all m) (v_key d)))).
  { unfold gc_deleted_of in Hd.
    destruct (collect_list v_seq (filter is_main (lget (m_all m) (v_key d))) (gc_horizon m)) as [dd keep] eqn:Ec.
    apply collect_list_split in Ec. cbn in Hd. rewrite Ec. apply in_or_app. left. exact Hd. }
  apply filter_In in Hm. destruct Hm as [H1 H2]. split; [exact H1|]. split; [exact H2|].
  unfold gc_keep. apply negb_false_iff. apply existsb_ver_eqb_In. exact Hd.
Qed.

(* the newest committed version of a key survives the collector *)
Lemma gc_last_main_kept m k w :
  Inv m -> last_opt (filter is_main (lget (m_all m) k)) = Some w ->
  In w (lget (m_all (gc m)) k).
Proof.
  intros I Hw. rewrite (gc_all m k I). apply filter_In.
  assert (Hin := last_opt_In _ _ _ Hw). apply filter_In in Hin. destruct Hin as [Hin Hm].
  split; [exact Hin|]. apply gc_keep_true; [apply (inv_sorted m I) | exact Hin |].
  unfold vkeep. rewrite Hw, N.eqb_refl. apply orb_true_r.
Qed.

Lemma main_le_last (l : list ver) v :
  vsorted l -> In v l -> is_main v = true ->
  exists w, last_opt (filter is_main l) = Some w /\ v_seq v <= v_seq w.
Proof.
  intros Hs Hv Hm.
  assert (Hin : In v (filter is_main l)) by (apply filter_In; auto).
  assert (Hsm : vsorted (filter is_main l)) by (apply sorted_filter; exact Hs).
  destruct (last_opt (filter is_main l)) as [w|] eqn:E.
  - exists w. split; [reflexivity|]. apply last_opt_some in E. rewrite E in Hin, Hsm.
    apply in_app_or in Hin. destruct Hin as [Hin|[<-|[]]]; [|lia].
    apply sorted_app_inv in Hsm. destruct Hsm as (_ & _ & H). specialize (H v w Hin (or_introl eq_refl)). lia.
  - apply last_opt_none in E. rewrite E in Hin. destruct Hin.
Qed.

Lemma gc_invK m : Inv m -> InvKV m -> InvKC m -> InvKV (gc m) /\ InvKC (gc m).
Proof.
  intros I KV KC.
  destruct (gc_kvf_view m I) as (m2 & Egc & Ek2 & Ec2).
  destruct (gc_fields m) as (Es & _ & Eq & _ & Enc & _).
  assert (A := fun k => gc_all m k I).
  assert (Hsub : forall k v, In v (lget (m_all (gc m)) k) -> In v (lget (m_all m) k) /\
                                                            gc_keep (lget (m_all m) k) (gc_horizon m) v = true).
  { intros k v Hv. rewrite A in Hv. apply filter_In in Hv. exact Hv. }
  assert (Hkept_cid : forall k v d, In v (lget (m_all (gc m)) k) -> In d (gc_deleted m) -> v_cid d <> v_cid v).
  { intros k v d Hv Hd E. destruct (Hsub k v Hv) as [Hv1 Hv2].
    destruct (gc_deleted_in_all m d I Hd) as (Hd1 & _ & Hd3).
    assert (d = v) by (eapply (inv_cid_inj m I); eassumption). subst d.
    destruct (inv_range m I _ _ Hv1) as (_ & _ & Ekey & _). rewrite Ekey in Hd3. congruence. }
  assert (Hsubk : forall c r, aget (m_kvf (gc m)) c = Some r -> aget (m_kvf m) c = Some r).
  { intros c r H. rewrite Egc in H. apply clean_job_kvf_sub in H. rewrite Ek2 in H. exact H. }
  assert (Hstale_main : forall r w, In w (lget (m_all m) (v_key r)) -> is_main w = true -> v_seq r < v_seq w ->
            exists w', In w' (lget (m_all (gc m)) (v_key r)) /\ is_main w' = true /\ v_seq r < v_seq w').
  { intros r w Hw Hm Hlt.
    destruct (main_le_last _ w (inv_sorted m I (v_key r)) Hw Hm) as (w' & Hw' & Hle).
    exists w'. split; [apply (gc_last_main_kept m _ w' I Hw')|].
    assert (Hin := last_opt_In _ _ _ Hw'). apply filter_In in Hin. split; [tauto | lia]. }
  split.
  - constructor; unfold stale; rewrite ?Enc.
    + intros k v Hv. rewrite Egc, clean_job_kvf_other.
      * rewrite Ek2. apply (k_listed m KV k v). exact (proj1 (Hsub k v Hv)).
      * intros d Hd. exact (Hkept_cid k v d Hv Hd).
    + intros c r E. apply Hsubk in E. destruct (k_record m KV c r E) as (H1 & H2 & H3 & H4 & H5).
      repeat split; try assumption; try lia.
      destruct H5 as [H5|[H5|(w & Hw & Hm & Hlt)]].
      * (* listed before: kept, or collected and then superseded by the kept newest *)
        destruct (gc_keep (lget (m_all m) (v_key r)) (gc_horizon m) r) eqn:Ekeep.
        -- left. rewrite A. apply filter_In. auto.
        -- right. right.
           assert (Hmain : is_main r = true).
           { unfold gc_keep in Ekeep. apply negb_false_iff in Ekeep. apply existsb_ver_eqb_In in Ekeep.
             unfold gc_deleted_of in Ekeep.
             destruct (collect_list v_seq (filter is_main (lget (m_all m) (v_key r))) (gc_horizon m)) as [dd keep] eqn:Ec.
             apply collect_list_split in Ec. cbn in Ekeep.
             assert (Hf : In r (filter is_main (lget (m_all m) (v_key r)))) by (rewrite Ec; apply in_or_app; left; exact Ekeep).
             apply filter_In in Hf. tauto. }
           destruct (main_le_last _ r (inv_sorted m I (v_key r)) H5 Hmain) as (w' & Hw' & Hle).
           exists w'. split; [apply (gc_last_main_kept m _ w' I Hw')|].
           assert (Hin := last_opt_In _ _ _ Hw'). apply filter_In in Hin. split; [tauto|].
           assert (Hne : r <> w').
           { intros ->. assert (Hk := gc_last_main_kept m _ w' I Hw'). apply Hsub in Hk. destruct Hk as [_ Hk]. congruence. }
           assert (Hnd := sorted_NoDup _ (inv_sorted m I (v_key r))).
           destruct (N.eq_dec (v_seq r) (v_seq w')) as [Eq'|]; [|lia]. exfalso. apply Hne.
           (* equal numbers in a strictly sorted list: same element *)
           clear -H5 Hin Eq' I. destruct Hin as [Hin _].
           assert (Hs := inv_sorted m I (v_key r)). revert Hs H5 Hin.
           generalize (lget (m_all m) (v_key r)). induction l as [|y l IH]; intros Hs Hr Hw; [destruct Hr|].
           apply sorted_cons_inv in Hs. destruct Hs as [Hs Hf]. rewrite Forall_forall in Hf.
           destruct Hr as [->|Hr], Hw as [->|Hw]; [reflexivity | | | exact (IH Hs Hr Hw)].
           ++ specialize (Hf w' Hw). lia.
           ++ specialize (Hf r Hr). lia.
      * right. left. exact H5.
      * right. right. exact (Hstale_main r w Hw Hm Hlt).
    + intros c1 c2 r1 r2 H1 H2. apply Hsubk in H1. apply Hsubk in H2. apply (k_seq_inj m KV c1 c2 r1 r2 H1 H2).
    + rewrite Egc. apply clean_job_kvf_keys. rewrite Ek2. apply (k_keys m KV).
  - constructor.
    + intros c x Hx. rewrite (gc_cont m c I) in Hx.
      destruct (existsb (fun d => N.eqb c (v_cid d)) (gc_deleted m)) eqn:Ex; [discriminate|].
      destruct (k_cont_rec m [] KC c x Hx) as [r Hr]. exists r.
      rewrite Egc, clean_job_kvf_other; [rewrite Ek2; exact Hr|].
      intros d Hd E. assert (Ex' : existsb (fun d0 => N.eqb c (v_cid d0)) (gc_deleted m) = true).
      { apply existsb_exists. exists d. split; [exact Hd | rewrite E; apply N.eqb_refl]. }
      congruence.
    + intros c x Hx. rewrite (gc_cont m c I) in Hx.
      destruct (existsb (fun d => N.eqb c (v_cid d)) (gc_deleted m)) eqn:Ex; [discriminate|].
      rewrite Eq.
      destruct (k_cont_live m [] KC c x Hx) as [(k & v & Hv & E)|[H|(d & [] & _)]]; [|right; left; exact H].
      left. exists k, v. split; [|exact E]. rewrite A. apply filter_In. split; [exact Hv|].
      destruct (gc_keep (lget (m_all m) k) (gc_horizon m) v) eqn:Ekeep; [reflexivity|]. exfalso.
      assert (Hd : In v (gc_deleted m)).
      { apply (In_gc_deleted m v I). destruct (inv_range m I _ _ Hv) as (_ & _ & -> & _).
        unfold gc_keep in Ekeep. apply negb_false_iff in Ekeep. apply existsb_ver_eqb_In in Ekeep. exact Ekeep. }
      assert (Ex' : existsb (fun d0 => N.eqb c (v_cid d0)) (gc_deleted m) = true).
      { apply existsb_exists. exists v. split; [exact Hd | rewrite E; apply N.eqb_refl]. }
      congruence.
Qed.

(* ---------- second phase of commit ---------- *)
Lemma fold_push_committed_invKV kept : forall m,
  Inv m -> InvKV m -> NoDup (map v_cid kept) ->
  (forall f, In f kept -> v_cid f < m_nextcid m /\ cid_free m (v_cid f)) ->
  InvKV (fold_left push_committed kept m).
Proof.
  induction kept as [|f kept IH]; intros m I K Hnd Hk; [exact K|].
  cbn [fold_left]. inversion Hnd as [|? ? Hnotin Hnd']; subst.
  destruct (Hk f (or_introl eq_refl)) as [Hlt Hfree].
  apply IH.
  - unfold push_committed. apply push_version_inv; [exact I | left; reflexivity | exact Hlt | exact Hfree].
  - unfold push_committed. apply push_version_invKV; assumption.
  - exact Hnd'.
  - intros g Hg. destruct (Hk g (or_intror Hg)) as [Hlt' Hfree']. split; [exact Hlt'|].
    apply push_committed_cid_free; [exact Hfree'|].
    intros E. apply Hnotin. rewrite E. apply in_map. exact Hg.
Qed.

Lemma fold_push_committed_invKC kept : forall m D,
  InvKC_ex m (kept ++ D) -> InvKC_ex (fold_left push_committed kept m) D.
Proof.
  induction kept as [|f kept IH]; intros m D K; [exact K|].
  cbn [fold_left]. apply IH. unfold push_committed. apply push_version_invKC.
  intros c x Hc Hne. split; [apply (k_cont_rec m _ K c x Hc)|].
  destruct (k_cont_live m _ K c x Hc) as [H|[H|(d & Hd & E)]]; [left; exact H | right; left; exact H|].
  right. right. destruct Hd as [<-|Hd]; [congruence|]. exists d. auto.
Qed.

Lemma tx_versions_split m h d :
  Inv m -> In d (tx_versions m h) -> In d (commit_older m h) \/ In d (commit_kept m h).
Proof.
  intros I Hd. unfold tx_versions in Hd. apply in_flat_map in Hd. destruct Hd as (k & Hk & Hd).
  destruct (last_opt (sget (m_tx m) h k)) as [f|] eqn:E.
  - apply last_opt_some in E. rewrite E in Hd. apply in_app_or in Hd. destruct Hd as [Hd|[<-|[]]].
    + left. unfold commit_older. apply in_flat_map. exists k. auto.
    + right. unfold commit_kept. apply in_flat_map. exists k. split; [exact Hk|].
      destruct (last_opt (sget (m_tx m) h k)) as [f'|] eqn:E'.
      * apply last_opt_some in E'. rewrite E' in E.
        apply app_inj_tail in E. destruct E as [_ ->]. left. reflexivity.
      * apply last_opt_none in E'. rewrite E' in E. destruct (removelast (sget (m_tx m) h k)); discriminate.
  - apply last_opt_none in E. rewrite E in Hd. destruct Hd.
Qed.

Lemma commit_invK m x :
  Inv m -> InvKV m -> InvKC m -> reg_find (m_reg m) (x_id x) = Some x ->
  InvKV (fst (commit m x)) /\ InvKC (fst (commit m x)).
Proof.
  intros I KV KC Hfind. apply reg_find_In in Hfind. destruct Hfind as [Hx _].
  destruct (inv_reg_range m I x Hx) as (_ & _ & Hpos & _).
  assert (Hh : x_id x <> 0) by lia.
  set (h := x_id x) in *.
  assert (I2 := commit_m2_inv m h I Hh).
  assert (KV2 : InvKV (commit_m2 m h)).
  { unfold commit_m2. apply (unlink_invKV m); try reflexivity; try assumption. cbn [m_seq set_seq set_reg]. lia. }
  assert (KC2 : InvKC_ex (commit_m2 m h) (tx_versions m h)).
  { unfold commit_m2. apply (unlink_invKC m); try reflexivity; assumption. }
  rewrite commit_unfold. cbn zeta. fold h.
  destruct (commit_m0_kept m h) as [-> ->].
  match goal with |- InvKV (fst (if ?c then _ else _)) /\ _ => destruct c end; cbn [fst].
  - split; [apply enqueue_invKV; exact KV2|].
    apply (enqueue_invKC _ _ (tx_versions m h)); [exact KC2|].
    intros d Hd. apply in_or_app. apply (tx_versions_split m h d I Hd).
  - assert (Hkept : forall f, In f (commit_kept m h) -> v_cid f < m_nextcid (commit_m2 m h) /\ cid_free (commit_m2 m h) (v_cid f)).
    { intros f Hf. destruct (In_commit_kept m h f I Hf) as (H1 & H2 & _).
      change (m_nextcid (commit_m2 m h)) with (m_nextcid m). split.
      - destruct (inv_range m I _ _ H1) as (_ & _ & _ & H). exact H.
      - split.
        + intros k v Hv. exact (owned_excl_cid m h f k v I H1 H2 Hv).
        + intros job d Hj Hd E. change (m_q (commit_m2 m h)) with (m_q m) in Hj.
          destruct (inv_queue m I job d Hj Hd) as [_ Hne]. apply (Hne _ _ H1). symmetry. exact E. }
    split.
    + apply enqueue_invKV. apply fold_push_committed_invKV; try assumption. apply commit_kept_cids_NoDup. exact I.
    + apply (enqueue_invKC _ _ (commit_older m h)); [|auto].
      apply fold_push_committed_invKC. constructor.
      * apply (k_cont_rec _ _ KC2).
      * intros c y Hc. destruct (k_cont_live _ _ KC2 c y Hc) as [H|[H|(d & Hd & E)]]; [left; exact H | right; left; exact H|].
        right. right. exists d. split; [|exact E]. apply in_or_app.
        destruct (tx_versions_split m h d I Hd); [right | left]; assumption.
Qed.

Lemma rollback_invK m h :
  Inv m -> InvKV m -> InvKC m -> InvKV (rollback m h) /\ InvKC (rollback m h).
Proof.
  intros I KV KC. unfold rollback. destruct (reg_find (m_reg m) h) as [x|] eqn:Hfind; [|split; assumption].
  apply reg_find_In in Hfind. destruct Hfind as [Hx Ex].
  destruct (inv_reg_range m I x Hx) as (_ & _ & Hpos & _).
  assert (Hh : h <> 0) by lia.
  set (m0 := set_reg m (reg_del (m_reg m) h)).
  change (tx_versions m0 h) with (tx_versions m h). split.
  - apply enqueue_invKV. apply (unlink_invKV m); try reflexivity; try assumption; cbn; lia.
  - apply (enqueue_invKC _ _ (tx_versions m h)); [|auto].
    apply (unlink_invKC m); try reflexivity; assumption.
Qed.

(* ---------- every operation except Reopen ---------- *)
Theorem mstep_invK m o :
  Inv m -> InvKV m -> InvKC m -> op_ok m o ->
  InvKV (fst (mstep m o)) /\ InvKC (fst (mstep m o)).
Proof.
  intros I KV KC Hok. destruct o as [l|h k v|h k|h k|h|h|h| | |]; cbn [mstep].
  - (* begin *) cbn [fst]. split.
    + apply (InvKV_ext m); try reflexivity; [cbn; lia | exact KV].
    + apply (InvKC_ext m); try reflexivity. exact KC.
  - destruct (N.eqb_spec k 0) as [->|Hk]; [split; assumption|]. cbn [fst].
    set (m2 := set_cont (set_nextcid m (N.succ (m_nextcid m))) (aset (m_cont m) (m_nextcid m) v)).
    assert (I2 : Inv m2) by exact (Inv_set_cont_fresh m v I).
    assert (KV2 : InvKV m2).
    { constructor; cbn [m_all m_kvf m_seq m_nextcid m2 set_cont set_nextcid].
      - apply (k_listed m KV).
      - intros c r E. destruct (k_record m KV c r E) as (H1 & H2 & H3 & H4 & H5). repeat split; try assumption; lia.
      - apply (k_seq_inj m KV).
      - apply (k_keys m KV). }
    destruct (fresh_cid_free m I) as [F1 F2]. split.
    + apply push_version_invKV; [exact I2 | exact KV2 | cbn; lia | split; assumption].
    + apply push_version_invKC. intros c x Hc Hne. cbn [m_cont m2 set_cont] in Hc.
      rewrite aget_aset in Hc. destruct (N.eqb_spec c (m_nextcid m)); [contradiction|].
      split; [apply (k_cont_rec m [] KC c x Hc) | apply (k_cont_live m [] KC c x Hc)].
  - cbn [fst]. set (m1 := set_nextcid m (N.succ (m_nextcid m))).
    assert (I1 : Inv m1) by exact (Inv_bump_cid m I).
    assert (KV1 : InvKV m1).
    { constructor; cbn [m_all m_kvf m_seq m_nextcid m1 set_nextcid].
      - apply (k_listed m KV).
      - intros c r E. destruct (k_record m KV c r E) as (H1 & H2 & H3 & H4 & H5). repeat split; try assumption; lia.
      - apply (k_seq_inj m KV).
      - apply (k_keys m KV). }
    destruct (fresh_cid_free m I) as [F1 F2]. split.
    + apply push_version_invKV; [exact I1 | exact KV1 | cbn; lia | split; assumption].
    + apply push_version_invKC. intros c x Hc Hne.
      split; [apply (k_cont_rec m [] KC c x Hc) | apply (k_cont_live m [] KC c x Hc)].
  - destruct (tx_info m h); split; assumption.
  - destruct (tx_info m h); split; assumption.
  - destruct (reg_find (m_reg m) h) as [x|] eqn:E; [|split; assumption].
    assert (Ex := proj2 (reg_find_In _ _ _ E)). subst h. apply commit_invK; assumption.
  - apply rollback_invK; assumption.
  - apply gc_invK; assumption.
  - apply drain_invK; assumption.
  - destruct Hok.
Qed.

(* ====================================================================== *)
(* The record invariant alone (no assumption on contents), and generalised to
   ANY intermediate set of persisted records between the state before and after
   the cleaner's physical deletions: used for crash points (C04). *)

Lemma drain_invKV_gen m kvf' :
  Inv m -> InvKV m ->
  (forall c r, aget kvf' c = Some r -> aget (m_kvf m) c = Some r) ->
  (forall k v, In v (lget (m_all m) k) -> aget kvf' (v_cid v) = Some v) ->
  NoDup (map fst kvf') ->
  InvKV (set_kvf (drain m) kvf').
Proof.
  intros I KV Hsub Hlisted Hnd. unfold drain.
  destruct (fold_clean_job_fields (m_q m) (set_q m [])) as (E1 & _ & _ & E4 & E5 & _ & E7). cbn zeta in *.
  constructor; unfold stale; cbn [m_kvf m_all m_seq m_nextcid set_kvf]; rewrite ?E1, ?E4, ?E7; cbn [m_seq m_all m_nextcid set_q].
  - exact Hlisted.
  - intros c r E. apply Hsub in E. destruct (k_record m KV c r E) as (H1 & H2 & H3 & H4 & H5).
    repeat split; assumption.
  - intros c1 c2 r1 r2 H1 H2. apply Hsub in H1. apply Hsub in H2. apply (k_seq_inj m KV c1 c2 r1 r2 H1 H2).
  - exact Hnd.
Qed.

Lemma drain_invKV m : Inv m -> InvKV m -> InvKV (drain m).
Proof.
  intros I KV.
  assert (E : m_kvf (drain m) = m_kvf (fold_left clean_job (m_q m) (set_q m []))) by reflexivity.
  apply (InvKV_ext (set_kvf (drain m) (m_kvf (drain m)))); try reflexivity; try apply N.le_refl.
  apply drain_invKV_gen; try assumption.
  - intros c r H. rewrite E in H. apply fold_clean_job_kvf_sub in H. exact H.
  - intros k v Hv. rewrite E, fold_clean_job_kvf_other; [apply (k_listed m KV k v Hv)|].
    intros j d Hj Hd Ec. destruct (inv_queue m I j d Hj Hd) as [_ Hne]. apply (Hne k v Hv). symmetry. exact Ec.
  - rewrite E. apply fold_clean_job_kvf_keys. apply (k_keys m KV).
Qed.

Lemma gc_invKV_gen m kvf' :
  Inv m -> InvKV m ->
  (forall c r, aget kvf' c = Some r -> aget (m_kvf m) c = Some r) ->
  (forall k v, In v (lget (m_all (gc m)) k) -> aget kvf' (v_cid v) = Some v) ->
  NoDup (map fst kvf') ->
  InvKV (set_kvf (gc m) kvf').
Proof.
  intros I KV Hsubk Hlisted Hnd.
  destruct (gc_fields m) as (Es & _ & Eq & _ & Enc & _).
  assert (A := fun k => gc_all m k I).
  assert (Hsub : forall k v, In v (lget (m_all (gc m)) k) -> In v (lget (m_all m) k) /\
                                                            gc_keep (lget (m_all m) k) (gc_horizon m) v = true).
  { intros k v Hv. rewrite A in Hv. apply filter_In in Hv. exact Hv. }
  assert (Hstale_main : forall r w, In w (lget (m_all m) (v_key r)) -> is_main w = true -> v_seq r < v_seq w ->
            exists w', In w' (lget (m_all (gc m)) (v_key r)) /\ is_main w' = true /\ v_seq r < v_seq w').
  { intros r w Hw Hm Hlt.
    destruct (main_le_last _ w (inv_sorted m I (v_key r)) Hw Hm) as (w' & Hw' & Hle).
    exists w'. split; [apply (gc_last_main_kept m _ w' I Hw')|].
    assert (Hin := last_opt_In _ _ _ Hw'). apply filter_In in Hin. split; [tauto | lia]. }
  constructor; unfold stale; cbn [m_kvf m_all m_seq m_nextcid set_kvf]; rewrite ?Enc.
  - exact Hlisted.
  - intros c r E. apply Hsubk in E. destruct (k_record m KV c r E) as (H1 & H2 & H3 & H4 & H5).
    split; [exact H1|]. split; [exact H2|]. split; [intros Hm; specialize (H3 Hm); lia|]. split; [exact H4|].
    destruct H5 as [H5|[H5|(w & Hw & Hm & Hlt)]].
    + destruct (gc_keep (lget (m_all m) (v_key r)) (gc_horizon m) r) eqn:Ekeep.
      * left. rewrite A. apply filter_In. auto.
      * right. right.
        assert (Hmain : is_main r = true).
        { unfold gc_keep in Ekeep. apply negb_false_iff in Ekeep. apply existsb_ver_eqb_In in Ekeep.
          unfold gc_deleted_of in Ekeep.
          destruct (collect_list v_seq (filter is_main (lget (m_all m) (v_key r))) (gc_horizon m)) as [dd keep] eqn:Ec.
          apply collect_list_split in Ec. cbn in Ekeep.
          assert (Hf : In r (filter is_main (lget (m_all m) (v_key r)))) by (rewrite Ec; apply in_or_app; left; exact Ekeep).
          apply filter_In in Hf. tauto. }
        destruct (main_le_last _ r (inv_sorted m I (v_key r)) H5 Hmain) as (w' & Hw' & Hle).
        exists w'. split; [apply (gc_last_main_kept m _ w' I Hw')|].
        assert (Hin := last_opt_In _ _ _ Hw'). apply filter_In in Hin. split; [tauto|].
        assert (Hne : r <> w').
        { intros ->. assert (Hk := gc_last_main_kept m _ w' I Hw'). apply Hsub in Hk. destruct Hk as [_ Hk]. congruence. }
        destruct (N.eq_dec (v_seq r) (v_seq w')) as [Eq'|]; [|lia]. exfalso. apply Hne.
        clear -H5 Hin Eq' I. destruct Hin as [Hin _].
        assert (Hs := inv_sorted m I (v_key r)). revert Hs H5 Hin.
        generalize (lget (m_all m) (v_key r)). induction l as [|y l IH]; intros Hs Hr Hw; [destruct Hr|].
        apply sorted_cons_inv in Hs. destruct Hs as [Hs Hf]. rewrite Forall_forall in Hf.
        destruct Hr as [->|Hr], Hw as [->|Hw]; [reflexivity | | | exact (IH Hs Hr Hw)].
        -- specialize (Hf w' Hw). lia.
        -- specialize (Hf r Hr). lia.
    + right. left. exact H5.
    + right. right. exact (Hstale_main r w Hw Hm Hlt).
  - intros c1 c2 r1 r2 H1 H2. apply Hsubk in H1. apply Hsubk in H2. apply (k_seq_inj m KV c1 c2 r1 r2 H1 H2).
  - exact Hnd.
Qed.

Lemma gc_kvf_sub m c r : Inv m -> aget (m_kvf (gc m)) c = Some r -> aget (m_kvf m) c = Some r.
Proof.
  intros I H. destruct (gc_kvf_view m I) as (m2 & Egc & Ek2 & _).
  rewrite Egc in H. apply clean_job_kvf_sub in H. rewrite Ek2 in H. exact H.
Qed.

Lemma gc_kvf_listed m k v :
  Inv m -> InvKV m -> In v (lget (m_all (gc m)) k) -> aget (m_kvf (gc m)) (v_cid v) = Some v.
Proof.
  intros I KV Hv. destruct (gc_kvf_view m I) as (m2 & Egc & Ek2 & _).
  assert (A := gc_all m k I). assert (Hv' := Hv). rewrite A in Hv'. apply filter_In in Hv'. destruct Hv' as [Hv1 Hv2].
  rewrite Egc, clean_job_kvf_other; [rewrite Ek2; apply (k_listed m KV k v Hv1)|].
  intros d Hd E. destruct (gc_deleted_in_all m d I Hd) as (Hd1 & _ & Hd3).
  assert (d = v) by (eapply (inv_cid_inj m I); eassumption). subst d.
  destruct (inv_range m I _ _ Hv1) as (_ & _ & Ekey & _). rewrite Ekey in Hd3. congruence.
Qed.

Lemma gc_invKV m : Inv m -> InvKV m -> InvKV (gc m).
Proof.
  intros I KV.
  apply (InvKV_ext (set_kvf (gc m) (m_kvf (gc m)))); try reflexivity; try apply N.le_refl.
  apply gc_invKV_gen; try assumption.
  - intros c r H. exact (gc_kvf_sub m c r I H).
  - intros k v Hv. exact (gc_kvf_listed m k v I KV Hv).
  - destruct (gc_kvf_view m I) as (m2 & Egc & Ek2 & _). rewrite Egc. apply clean_job_kvf_keys. rewrite Ek2. apply (k_keys m KV).
Qed.

Lemma commit_invKV m x :
  Inv m -> InvKV m -> reg_find (m_reg m) (x_id x) = Some x -> InvKV (fst (commit m x)).
Proof.
  intros I KV Hfind. apply reg_find_In in Hfind. destruct Hfind as [Hx _].
  destruct (inv_reg_range m I x Hx) as (_ & _ & Hpos & _).
  assert (Hh : x_id x <> 0) by lia.
  set (h := x_id x) in *.
  assert (I2 := commit_m2_inv m h I Hh).
  assert (KV2 : InvKV (commit_m2 m h)).
  { unfold commit_m2. apply (unlink_invKV m); try reflexivity; try assumption. cbn [m_seq set_seq set_reg]. lia. }
  rewrite commit_unfold. cbn zeta. fold h.
  destruct (commit_m0_kept m h) as [-> ->].
  match goal with |- InvKV (fst (if ?c then _ else _)) => destruct c end; cbn [fst].
  - apply enqueue_invKV; exact KV2.
  - apply enqueue_invKV. apply fold_push_committed_invKV; try assumption; [apply commit_kept_cids_NoDup; exact I|].
    intros f Hf. destruct (In_commit_kept m h f I Hf) as (H1 & H2 & _).
    change (m_nextcid (commit_m2 m h)) with (m_nextcid m). split.
    + destruct (inv_range m I _ _ H1) as (_ & _ & _ & H). exact H.
    + split.
      * intros k v Hv. exact (owned_excl_cid m h f k v I H1 H2 Hv).
      * intros job d Hj Hd E. change (m_q (commit_m2 m h)) with (m_q m) in Hj.
        destruct (inv_queue m I job d Hj Hd) as [_ Hne]. apply (Hne _ _ H1). symmetry. exact E.
Qed.

Lemma rollback_invKV m h : Inv m -> InvKV m -> InvKV (rollback m h).
Proof.
  intros I KV. unfold rollback. destruct (reg_find (m_reg m) h) as [x|] eqn:Hfind; [|assumption].
  apply reg_find_In in Hfind. destruct Hfind as [Hx Ex].
  destruct (inv_reg_range m I x Hx) as (_ & _ & Hpos & _).
  assert (Hh : h <> 0) by lia.
  apply enqueue_invKV. apply (unlink_invKV m); try reflexivity; try assumption; cbn; lia.
Qed.

Lemma alloc_invKV m c :
  InvKV m -> InvKV (set_cont (set_nextcid m (N.succ (m_nextcid m))) c).
Proof.
  intros KV. constructor; cbn [m_all m_kvf m_seq m_nextcid set_cont set_nextcid].
  - apply (k_listed m KV).
  - intros c0 r E. destruct (k_record m KV c0 r E) as (H1 & H2 & H3 & H4 & H5). repeat split; try assumption; lia.
  - apply (k_seq_inj m KV).
  - apply (k_keys m KV).
Qed.

Theorem mstep_invKV m o : Inv m -> InvKV m -> op_ok m o -> InvKV (fst (mstep m o)).
Proof.
  intros I KV Hok. destruct o as [l|h k v|h k|h k|h|h|h| | |]; cbn [mstep].
  - cbn [fst]. apply (InvKV_ext m); try reflexivity; [cbn; lia | exact KV].
  - destruct (N.eqb_spec k 0) as [->|Hk]; [assumption|]. cbn [fst].
    destruct (fresh_cid_free m I) as [F1 F2].
    apply push_version_invKV; [exact (Inv_set_cont_fresh m v I) | apply alloc_invKV; exact KV | cbn; lia | split; assumption].
  - cbn [fst]. destruct (fresh_cid_free m I) as [F1 F2].
    apply push_version_invKV; [exact (Inv_bump_cid m I) | | cbn; lia | split; assumption].
    exact (alloc_invKV m (m_cont m) KV).
  - destruct (tx_info m h); assumption.
  - destruct (tx_info m h); assumption.
  - destruct (reg_find (m_reg m) h) as [x|] eqn:E; [|assumption].
    assert (Ex := proj2 (reg_find_In _ _ _ E)). subst h. apply commit_invKV; assumption.
  - apply rollback_invKV; assumption.
  - apply gc_invKV; assumption.
  - apply drain_invKV; assumption.
  - destruct Hok.
Qed.
