(* The persistent part of the Core model: version records (file/<cid>) and
   content (fileContent/<cid> + file), related to the in-memory lists.
   InvKV: about version records.  InvKC: about contents; [InvKC_ex m D] is InvKC
   with the versions D "in flight" (unlinked, neither re-pushed nor queued yet). *)
From Coq Require Import List NArith Bool Lia Sorted.
From FsDb Require Import VList VListProofs Core CoreLemmas CoreInv.
Import ListNotations.
Open Scope N_scope.

Definition stale (m : mstate) (r : ver) : Prop :=
  v_tx r <> 0 \/
  exists w, In w (lget (m_all m) (v_key r)) /\ is_main w = true /\ v_seq r < v_seq w.

Record InvKV (m : mstate) : Prop := mkInvKV {
  k_listed : forall k v, In v (lget (m_all m) k) -> aget (m_kvf m) (v_cid v) = Some v;
  k_record : forall c r, aget (m_kvf m) c = Some r ->
      v_cid r = c /\ 0 < v_seq r /\ v_seq r <= m_seq m /\ c < m_nextcid m /\
      (In r (lget (m_all m) (v_key r)) \/ stale m r);
  k_seq_inj : forall c1 c2 r1 r2, aget (m_kvf m) c1 = Some r1 -> aget (m_kvf m) c2 = Some r2 ->
      v_seq r1 = v_seq r2 -> c1 = c2;
  k_keys : NoDup (map fst (m_kvf m))
}.

Definition in_flight (D : list ver) (c : N) : Prop := exists d, In d D /\ v_cid d = c.

Record InvKC_ex (m : mstate) (D : list ver) : Prop := mkInvKC {
  k_cont_rec : forall c x, aget (m_cont m) c = Some x -> exists r, aget (m_kvf m) c = Some r;
  k_cont_live : forall c x, aget (m_cont m) c = Some x ->
      (exists k v, In v (lget (m_all m) k) /\ v_cid v = c) \/
      (exists job d, In job (m_q m) /\ In d job /\ v_cid d = c) \/
      in_flight D c
}.
Definition InvKC (m : mstate) : Prop := InvKC_ex m [].

Lemma InvK_init : InvKV m_init /\ InvKC m_init.
Proof.
  split; constructor; cbn; try (intros; discriminate); try (intros; contradiction). constructor.
Qed.

Lemma NoDup_keys_aset' {V} (s : list (N * V)) k v : NoDup (map fst s) -> NoDup (map fst (aset s k v)).
Proof.
  intros H. rewrite keys_aset. destruct (existsb (N.eqb k) (map fst s)) eqn:E; [exact H|].
  apply NoDup_snoc; [exact H|]. intros Hin. apply existsb_eqb_In in Hin. congruence.
Qed.

Lemma NoDup_keys_adel {V} (s : list (N * V)) k : NoDup (map fst s) -> NoDup (map fst (adel s k)).
Proof.
  unfold adel. induction s as [|x s IH]; intros H; [constructor|].
  cbn [map] in H. inversion H as [|? ? Hn Hnd]; subst. cbn [filter].
  destruct (negb (N.eqb (fst x) k)); cbn [map]; [|exact (IH Hnd)].
  constructor; [|exact (IH Hnd)]. intros Hin. apply Hn.
  apply in_map_iff in Hin. destruct Hin as (y & E & Hy). apply filter_In in Hy.
  apply in_map_iff. exists y. tauto.
Qed.

(* ---------- push_version ---------- *)
Lemma push_version_kvf m h k cid c :
  aget (m_kvf (push_version m h k cid)) c =
  if N.eqb c cid then Some (new_ver m h k cid) else aget (m_kvf m) c.
Proof. unfold push_version. cbn [m_kvf set_all set_tx set_kvf set_seq]. apply aget_aset. Qed.

Lemma In_all_push m h k cid k' v :
  In v (lget (m_all m) k') -> In v (lget (m_all (push_version m h k cid)) k').
Proof.
  intros H. rewrite push_version_all. destruct (N.eqb k' k) eqn:E; [|exact H].
  apply N.eqb_eq in E. subst k'. apply in_or_app. left. exact H.
Qed.

Lemma stale_push m h k cid r : stale m r -> stale (push_version m h k cid) r.
Proof.
  intros [H|(w & Hw & Hm & Hlt)]; [left; exact H|]. right. exists w.
  split; [apply In_all_push; exact Hw | auto].
Qed.

Lemma push_version_invKV m h k cid :
  Inv m -> InvKV m -> cid < m_nextcid m -> cid_free m cid -> InvKV (push_version m h k cid).
Proof.
  intros I K Hcid [Hfree _]. constructor.
  - intros k' v Hv. rewrite push_version_kvf. apply In_push_all in Hv.
    destruct Hv as [Hv|[-> ->]].
    + destruct (N.eqb_spec (v_cid v) cid) as [E|_]; [exfalso; exact (Hfree _ _ Hv E)|].
      apply (k_listed m K _ _ Hv).
    + cbn [new_ver v_cid]. rewrite N.eqb_refl. reflexivity.
  - intros c r. rewrite push_version_kvf.
    change (m_seq (push_version m h k cid)) with (N.succ (m_seq m)).
    change (m_nextcid (push_version m h k cid)) with (m_nextcid m).
    destruct (N.eqb_spec c cid) as [->|Hne].
    + intros E. injection E as <-. cbn [new_ver v_cid v_seq v_key]. repeat split; try lia.
      left. rewrite push_version_all, N.eqb_refl. apply in_or_app. right. left. reflexivity.
    + intros E. destruct (k_record m K c r E) as (H1 & H2 & H3 & H4 & H5).
      repeat split; try assumption; try lia.
      destruct H5 as [H5|H5]; [left; apply In_all_push; exact H5 | right; apply stale_push; exact H5].
  - intros c1 c2 r1 r2. rewrite !push_version_kvf.
    destruct (N.eqb_spec c1 cid) as [->|N1], (N.eqb_spec c2 cid) as [->|N2]; intros E1 E2 Es.
    + reflexivity.
    + injection E1 as <-. destruct (k_record m K c2 r2 E2) as (_ & _ & Hle & _). cbn in Es. lia.
    + injection E2 as <-. destruct (k_record m K c1 r1 E1) as (_ & _ & Hle & _). cbn in Es. lia.
    + apply (k_seq_inj m K c1 c2 r1 r2 E1 E2 Es).
  - unfold push_version. cbn [m_kvf set_all set_tx set_kvf set_seq]. apply NoDup_keys_aset'. apply (k_keys m K).
Qed.

(* pushing version [f]'s content id takes it out of the in-flight set *)
Lemma push_version_invKC m h k cid D :
  (forall c x, aget (m_cont m) c = Some x -> c <> cid ->
     (exists r, aget (m_kvf m) c = Some r) /\
     ((exists k0 v, In v (lget (m_all m) k0) /\ v_cid v = c) \/
      (exists job d, In job (m_q m) /\ In d job /\ v_cid d = c) \/ in_flight D c)) ->
  InvKC_ex (push_version m h k cid) D.
Proof.
  intros H. constructor.
  - intros c x Hc. change (m_cont (push_version m h k cid)) with (m_cont m) in Hc.
    rewrite push_version_kvf. destruct (N.eqb_spec c cid) as [->|Hne]; [eauto|].
    exact (proj1 (H c x Hc Hne)).
  - intros c x Hc. change (m_cont (push_version m h k cid)) with (m_cont m) in Hc.
    change (m_q (push_version m h k cid)) with (m_q m).
    destruct (N.eqb_spec c cid) as [->|Hne].
    + left. exists k, (new_ver m h k cid). split; [|reflexivity].
      rewrite push_version_all, N.eqb_refl. apply in_or_app. right. left. reflexivity.
    + destruct (proj2 (H c x Hc Hne)) as [(k0 & v & Hv & E)|[Hq|Hf]].
      * left. exists k0, v. split; [apply In_all_push; exact Hv | exact E].
      * right. left. exact Hq.
      * right. right. exact Hf.
Qed.

(* ---------- states that differ only in seq / reg / nexttx ---------- *)
Lemma InvKV_ext m m' :
  m_all m' = m_all m -> m_kvf m' = m_kvf m -> m_nextcid m' = m_nextcid m -> m_seq m <= m_seq m' ->
  InvKV m -> InvKV m'.
Proof.
  intros Ea Ek En Es K. constructor; unfold stale; rewrite ?Ea, ?Ek, ?En.
  - apply (k_listed m K).
  - intros c r E. destruct (k_record m K c r E) as (H1 & H2 & H3 & H4 & H5).
    repeat split; try assumption; try lia.
  - apply (k_seq_inj m K).
  - apply (k_keys m K).
Qed.

Lemma InvKC_ext m m' D :
  m_all m' = m_all m -> m_kvf m' = m_kvf m -> m_cont m' = m_cont m -> m_q m' = m_q m ->
  InvKC_ex m D -> InvKC_ex m' D.
Proof.
  intros Ea Ek Ec Eq K. constructor; rewrite ?Ea, ?Ek, ?Ec, ?Eq; [apply (k_cont_rec m D K) | apply (k_cont_live m D K)].
Qed.

(* ---------- unlink ---------- *)
Lemma unlink_invKV m m1 h :
  Inv m -> InvKV m -> h <> 0 ->
  m_all m1 = m_all m -> m_tx m1 = m_tx m -> m_kvf m1 = m_kvf m ->
  m_seq m <= m_seq m1 -> m_nextcid m1 = m_nextcid m ->
  InvKV (unlink_tx m1 h).
Proof.
  intros I K Hh Ea Et Ek Es En.
  assert (A := fun k => unlink_all m m1 h k I Ea Et).
  assert (Ekvf : m_kvf (unlink_tx m1 h) = m_kvf m) by (unfold unlink_tx; cbn; exact Ek).
  assert (Eseq : m_seq (unlink_tx m1 h) = m_seq m1) by reflexivity.
  assert (Encid : m_nextcid (unlink_tx m1 h) = m_nextcid m) by (unfold unlink_tx; cbn; exact En).
  constructor; rewrite ?Ekvf, ?Eseq, ?Encid.
  - intros k v Hv. rewrite A in Hv. apply filter_In in Hv. apply (k_listed m K k v). tauto.
  - intros c r E. destruct (k_record m K c r E) as (H1 & H2 & H3 & H4 & H5).
    repeat split; try assumption; try lia.
    destruct H5 as [H5|H5].
    + destruct (N.eqb_spec (v_tx r) h) as [Eh|Nh].
      * right. left. congruence.
      * left. rewrite A. apply filter_In. split; [exact H5|]. unfold owned.
        destruct (N.eqb_spec (v_tx r) h); [contradiction | reflexivity].
    + right. destruct H5 as [H5|(w & Hw & Hm & Hlt)]; [left; exact H5|]. right. exists w.
      split; [|auto]. rewrite A. apply filter_In. split; [exact Hw|]. unfold owned, is_main in *.
      apply N.eqb_eq in Hm. rewrite Hm. destruct (N.eqb_spec 0 h); [congruence | reflexivity].
  - apply (k_seq_inj m K).
  - apply (k_keys m K).
Qed.

Lemma unlink_invKC m m1 h :
  Inv m -> InvKC m -> h <> 0 ->
  m_all m1 = m_all m -> m_tx m1 = m_tx m -> m_kvf m1 = m_kvf m -> m_cont m1 = m_cont m -> m_q m1 = m_q m ->
  InvKC_ex (unlink_tx m1 h) (tx_versions m h).
Proof.
  intros I K Hh Ea Et Ek Ec Eq.
  assert (A := fun k => unlink_all m m1 h k I Ea Et).
  constructor.
  - intros c x Hc. unfold unlink_tx in *. cbn [m_cont m_kvf set_all set_tx] in *. rewrite Ec in Hc. rewrite Ek.
    apply (k_cont_rec m [] K c x Hc).
  - intros c x Hc. assert (Hc' : aget (m_cont m) c = Some x) by (unfold unlink_tx in Hc; cbn in Hc; rewrite Ec in Hc; exact Hc).
    change (m_q (unlink_tx m1 h)) with (m_q m1). rewrite Eq.
    destruct (k_cont_live m [] K c x Hc') as [(k & v & Hv & E)|[Hq|(d & [] & _)]].
    + destruct (owned h v) eqn:Eo.
      * right. right. exists v. split; [|exact E]. apply (In_tx_versions m h v I). eauto.
      * left. exists k, v. split; [|exact E]. rewrite A. apply filter_In. rewrite Eo. auto.
    + right. left. exact Hq.
Qed.

(* ---------- enqueue ---------- *)
Lemma enqueue_invKV m job : InvKV m -> InvKV (enqueue m job).
Proof.
  intros K. destruct (enqueue_fields m job) as (E1 & _ & _ & E4 & _ & _ & E7).
  apply (InvKV_ext m); try assumption; [unfold enqueue; destruct job; reflexivity | rewrite E1; lia].
Qed.

Lemma In_q_enqueue m job j : job <> [] -> (In j (m_q m) \/ j = job) -> In j (m_q (enqueue m job)).
Proof.
  intros Hne H. unfold enqueue. destruct job; [contradiction|]. cbn. apply in_or_app.
  destruct H as [H| ->]; [left; exact H | right; left; reflexivity].
Qed.

Lemma enqueue_invKC m job D :
  InvKC_ex m D -> (forall d, In d D -> In d job) -> InvKC (enqueue m job).
Proof.
  intros K Hsub. destruct (enqueue_fields m job) as (_ & _ & _ & E4 & E5 & _ & _).
  assert (Ekvf : m_kvf (enqueue m job) = m_kvf m) by (unfold enqueue; destruct job; reflexivity).
  constructor; rewrite ?E4, ?E5, ?Ekvf.
  - apply (k_cont_rec m D K).
  - intros c x Hc. destruct (k_cont_live m D K c x Hc) as [H|[(j & d & Hj & Hd & E)|(d & Hd & E)]].
    + left. exact H.
    + right. left. exists j, d. split; [|auto].
      destruct job as [|d0 job']; [exact Hj|]. apply In_q_enqueue; [discriminate | left; exact Hj].
    + right. left. exists job, d. split; [|split; [apply Hsub; exact Hd | exact E]].
      apply In_q_enqueue; [|right; reflexivity]. intros En. specialize (Hsub d Hd). rewrite En in Hsub. exact Hsub.
Qed.

(* ---------- cleaner ---------- *)
Lemma clean_ver_kvf_sub m v c r :
  aget (m_kvf (clean_ver m v)) c = Some r -> aget (m_kvf m) c = Some r.
Proof.
  unfold clean_ver. destruct (aget (m_cont m) (v_cid v)); cbn [m_kvf set_cont set_kvf]; [|auto].
  rewrite aget_adel. destruct (N.eqb c (v_cid v)); [discriminate | auto].
Qed.

Lemma clean_ver_kvf_other m v c :
  c <> v_cid v -> aget (m_kvf (clean_ver m v)) c = aget (m_kvf m) c.
Proof.
  intros Hne. unfold clean_ver. destruct (aget (m_cont m) (v_cid v)); cbn [m_kvf set_cont set_kvf]; [|reflexivity].
  rewrite aget_adel. destruct (N.eqb_spec c (v_cid v)); [contradiction | reflexivity].
Qed.

Lemma clean_ver_kvf_keys m v : NoDup (map fst (m_kvf m)) -> NoDup (map fst (m_kvf (clean_ver m v))).
Proof.
  intros H. unfold clean_ver. destruct (aget (m_cont m) (v_cid v)); cbn [m_kvf set_cont set_kvf]; [|exact H].
  apply NoDup_keys_adel. exact H.
Qed.

Lemma clean_job_kvf_sub job : forall m c r,
  aget (m_kvf (clean_job m job)) c = Some r -> aget (m_kvf m) c = Some r.
Proof.
  induction job as [|v job IH]; intros m c r H; [exact H|].
  cbn [clean_job fold_left] in H. apply IH in H. apply clean_ver_kvf_sub in H. exact H.
Qed.

Lemma clean_job_kvf_other job : forall m c,
  (forall d, In d job -> v_cid d <> c) -> aget (m_kvf (clean_job m job)) c = aget (m_kvf m) c.
Proof.
  induction job as [|v job IH]; intros m c H; [reflexivity|].
  cbn [clean_job fold_left]. fold (clean_job (clean_ver m v) job).
  rewrite IH by (intros d Hd; apply H; right; exact Hd).
  apply clean_ver_kvf_other. intros E. apply (H v (or_introl eq_refl)). symmetry. exact E.
Qed.

Lemma clean_job_kvf_keys job : forall m, NoDup (map fst (m_kvf m)) -> NoDup (map fst (m_kvf (clean_job m job))).
Proof.
  induction job as [|v job IH]; intros m H; [exact H|].
  cbn [clean_job fold_left]. apply IH. apply clean_ver_kvf_keys. exact H.
Qed.

(* cleaning versions that are not listed keeps the record invariant *)
Lemma clean_job_invKV m job :
  InvKV m -> (forall d k v, In d job -> In v (lget (m_all m) k) -> v_cid v <> v_cid d) ->
  InvKV (clean_job m job).
Proof.
  intros K Hdis.
  destruct (clean_job_fields job m) as (E1 & _ & _ & E4 & _ & _ & E7). cbn zeta in *.
  constructor; unfold stale; rewrite ?E1, ?E4, ?E7.
  - intros k v Hv. rewrite clean_job_kvf_other; [apply (k_listed m K k v Hv)|].
    intros d Hd E. apply (Hdis d k v Hd Hv). symmetry. exact E.
  - intros c r E. apply clean_job_kvf_sub in E. destruct (k_record m K c r E) as (H1 & H2 & H3 & H4 & H5).
    repeat split; assumption.
  - intros c1 c2 r1 r2 H1 H2. apply clean_job_kvf_sub in H1. apply clean_job_kvf_sub in H2.
    apply (k_seq_inj m K c1 c2 r1 r2 H1 H2).
  - apply clean_job_kvf_keys. apply (k_keys m K).
Qed.
