"""Seeded generator of sequential histories (case-file format of DESIGN.md appendix B)."""

KEY_POOLS = [
    [b"a", b"b", b"c", b"d", b"e"],
    [b"k", b"k1", b"k10", b"k2", b"k\xc3\xa9", b"kz"],                 # prefixes of each other, multi-byte
    ["ключ".encode(), "ключ2".encode(), "鍵".encode(), b"~", b"A", b"a/b/c", b" ", b"x" * 64],
    [b"file.txt", b"file.txt.bak", b"dir/file", b"dir/file2", b"\xf0\x9f\x94\x91"],
]
LENGTHS = [0, 1, 2, 5, 17, 100, 2047, 2048, 2049, 4096, 32767, 32768, 32769, 65536, 65537]
SMALL = [0, 1, 2, 3, 5, 8, 13, 64]
LEVELS = ["RU", "RC", "RR", "SER", "DEF"]


class Hist:
    def __init__(self, rng, cid, nkeys=None, profile="mixed", nops=None, roots=1):
        self.rng = rng
        self.cid = cid
        self.profile = profile
        pool = rng.choice(KEY_POOLS)
        nkeys = nkeys or rng.randint(1, min(5, len(pool)))
        self.keys = sorted(rng.sample(pool, nkeys))      # byte-wise order = Go's sort.Strings
        # a quarter of the histories pass request-scoped contexts (cancelled as soon as the call has returned)
        opt = " ctx=req" if rng.random() < 0.25 else ""
        self.lines = ["case %s roots=%d%s" % (cid, roots, opt), "keytab " + " ".join(k.hex() for k in self.keys)]
        self.nkeys = nkeys
        self.open = []        # open handle numbers
        self.ended = []       # ended handle numbers
        self.nh = 0
        self.nv = 0
        self.nops = nops or rng.choice([10, 20, 40, 80, 120])
        self.levels = {}

    # ---- emitters
    def key(self):
        return self.rng.randint(1, self.nkeys)

    def emit(self, s):
        self.lines.append(s)

    def begin(self, lvl=None):
        lvl = lvl or self.rng.choice(LEVELS)
        self.nh += 1
        self.open.append(self.nh)
        self.levels[self.nh] = lvl
        self.emit("begin " + lvl)
        return self.nh

    def via_set(self, n):
        x = self.rng.random()
        if x < 0.5:
            return "s"
        if x < 0.75:
            return "r" + str(self.rng.choice([0, 1, 7, 100, 2048, 32768, 40000]))
        parts = []
        for _ in range(self.rng.randint(0, 4)):
            parts.append(str(self.rng.choice([0, 0, 1, 2, 100, 2047, 2048, 2049, 32768])))
        return "c" + ",".join(parts)

    def set(self, h, k=None, big=True):
        self.nv += 1
        n = self.rng.choice(LENGTHS if (big and self.rng.random() < 0.25) else SMALL)
        self.emit("set %d %d %d %d %s" % (h, k if k is not None else self.key(), self.nv, n, self.via_set(n)))

    def delete(self, h, k=None):
        self.emit("del %d %d" % (h, k if k is not None else self.key()))

    def get(self, h, k=None):
        self.emit("get %d %d %s" % (h, k if k is not None else self.key(), self.rng.choice(["g", "g", "r"])))

    def keys_(self, h):
        self.emit("keys %d" % h)

    def end(self, h, how):
        self.emit("%s %d" % (how, h))
        if h in self.open:
            self.open.remove(h)
            self.ended.append(h)

    def probe(self, handles=None):
        hs = [0] + (list(self.open) if handles is None else handles)
        for h in hs:
            for k in range(1, self.nkeys + 1):
                self.emit("get %d %d g" % (h, k))
            self.emit("keys %d" % h)

    def finish(self):
        self.emit("end")
        return "\n".join(self.lines)


def gen_history(rng, cid, profile="mixed", probe_p=0.15, gc_p=0.06, reopen_p=0.0, late_p=0.0, max_open=6, nops=None,
                nkeys=None):
    """profile: autocommit | mixed | conflict | late"""
    h = Hist(rng, cid, profile=profile, nops=nops, nkeys=nkeys)
    r = rng
    for _ in range(h.nops):
        x = r.random()
        if profile == "autocommit":
            if x < 0.40:
                h.set(0)
            elif x < 0.52:
                h.delete(0)
            elif x < 0.80:
                h.get(0)
            elif x < 0.90:
                h.keys_(0)
            elif x < 0.93:
                h.set(0, k=0)      # empty key, through Set, SetReader or Create+Write*+Close, any length
            elif x < 0.96:
                h.emit("gc")
            elif x < 0.98:
                h.emit("drain")
            else:
                if reopen_p > 0:
                    h.emit("reopen")
                else:
                    h.get(0)
            continue
        # transactional profiles
        if late_p > 0 and h.ended and x < late_p:
            t = r.choice(h.ended)
            y = r.random()
            if y < 0.25:
                h.get(t)
            elif y < 0.35:
                h.keys_(t)
            elif y < 0.55:
                h.set(t, big=False)
            elif y < 0.65:
                h.delete(t)
            elif y < 0.8:
                h.emit("commit %d" % t)
            else:
                h.emit("rollback %d" % t)
            if r.random() < 0.7:
                h.probe()
            continue
        if x < 0.10 and len(h.open) < max_open:
            lvl = None
            if profile == "conflict":
                lvl = r.choice(["RR", "SER", "RR", "SER", "RC", "RU"])
            h.begin(lvl)
            if r.random() < 0.4:
                # boundary: a committed write that draws the number right after the Begin's
                h.set(0, big=False)
        elif x < 0.40:
            t = r.choice(h.open + [0]) if h.open else 0
            if profile == "conflict" and h.open and r.random() < 0.8:
                t = r.choice(h.open)
            h.set(t, big=(profile != "conflict"))
        elif x < 0.50:
            t = r.choice(h.open + [0]) if h.open else 0
            h.delete(t)
        elif x < 0.70:
            t = r.choice(h.open + [0]) if h.open else 0
            h.get(t)
        elif x < 0.76:
            t = r.choice(h.open + [0]) if h.open else 0
            h.keys_(t)
        elif x < 0.88 and h.open:
            t = r.choice(h.open)
            h.end(t, "commit" if r.random() < 0.7 else "rollback")
            if profile == "conflict" or r.random() < 0.5:
                h.probe([])
        elif x < 0.88 + gc_p:
            h.emit("gc")
        elif x < 0.88 + gc_p + 0.02:
            h.emit("drain")
        elif reopen_p > 0 and x < 0.88 + gc_p + 0.02 + reopen_p:
            h.emit("reopen")
            h.ended += h.open
            h.open = []
            # handles issued before a reopen are bound to the closed instance: never used again
            h.ended = []
            h.probe([])
        else:
            h.get(r.choice(h.open + [0]) if h.open else 0)
        if r.random() < probe_p:
            h.probe()
    # end: finish some transactions, final probe
    for t in list(h.open):
        if r.random() < 0.6:
            h.end(t, r.choice(["commit", "rollback"]))
    h.probe()
    return h.finish()


def split_cases(text):
    """split a multi-case file into a list of case texts"""
    cases, cur = [], []
    for l in text.split("\n"):
        if l.startswith("case "):
            cur = [l]
        elif l == "end":
            cur.append(l)
            cases.append("\n".join(cur))
            cur = []
        elif cur:
            cur.append(l)
    return cases


def split_outputs(lines):
    outs, cur = [], None
    for l in lines:
        if l.startswith("case "):
            cur = [l]
        elif l == "end":
            cur.append(l)
            outs.append(cur)
            cur = None
        elif cur is not None:
            cur.append(l)
    return outs


# ---------------------------------------------------------------------------
# content identity: the harness prints "val <len>:<sha256[:6]>"; the model prints value ids.
import hashlib as _hl
import struct as _st

_content_cache = {}


def content_ident(v, n):
    key = (v, n)
    if key not in _content_cache:
        out = bytearray()
        ctr = 0
        while len(out) < n:
            out += _hl.sha256(_st.pack("<QQ", v, ctr)).digest()
            ctr += 1
        _content_cache[key] = "%d:%s" % (n, _hl.sha256(bytes(out[:n])).hexdigest()[:12])
    return _content_cache[key]


def value_table(case_text):
    """value id -> length, from the set lines of a case"""
    tab = {}
    for l in case_text.split("\n"):
        t = l.split()
        if t and t[0] == "set":
            tab[int(t[3])] = int(t[4])
    return tab


def canon_model_output(case_text, out_lines):
    """rewrite 'val <id>' / 'disk ... vals ids' of the model into content identities"""
    tab = value_table(case_text)
    res = []
    for l in out_lines:
        t = l.split()
        if t and t[0] == "val" and t[1].isdigit():
            v = int(t[1])
            res.append("val " + content_ident(v, tab.get(v, 0)))
        elif t and t[0] == "disk":
            i = t.index("vals")
            ids = sorted(content_ident(int(x), tab.get(int(x), 0)) for x in t[i + 1:])
            res.append(" ".join(t[:i + 1] + ids))
        else:
            res.append(l)
    return res
