"""C15 — concurrent use of one database is free of data races (PARTIAL: lockset theorem + Go race detector)."""
import concurrent.futures as cf
import glob
import json
import os
import re
import shutil
import tempfile

from lib import common as C
from lib import lockskel as LS
from lib import histgen as G
from lib import histprops as P

FSDB = "github.com/glebziz/fs_db"
HOOKPKGS = ("/internal/verifhook", "/pkg/verifapi")


def gen_case(rng, cid):
    """programs made almost only of concurrent groups; one goroutine per transaction handle"""
    roots = rng.choice([1, 1, 2, 3])
    ls = ["case %s roots=%d" % (cid, roots), "keytab 6b31 6b32 6b33"]
    v, ntx, live = 0, 0, []
    first = rng.random() < 0.5          # first use of the handle is itself concurrent
    if not first:
        v += 1
        ls.append("set 0 1 %d 5 s" % v)
    for _ in range(rng.randint(3, 6)):
        grp, used = [], set()
        for _ in range(rng.randint(2, 5)):
            x = rng.random()
            h = rng.choice([0] + [t for t in live if t not in used])
            if h:
                used.add(h)
            k = rng.randint(1, 3)
            if x < 0.05:
                # a streamed write whose store FAILS (empty key) while the caller keeps writing: the error is handed from
                # the storing goroutine to the writer
                v += 1
                grp.append("set %d 0 %d 5000 c100,100,2048,100" % (h, v))
            elif x < 0.3:
                v += 1
                grp.append("set %d %d %d %d %s" % (h, k, v, rng.choice([1, 5, 2049, 5000]), rng.choice(["s", "r100", "c1"])))
            elif x < 0.4:
                grp.append("del %d %d" % (h, k))
            elif x < 0.6:
                grp.append("get %d %d %s" % (h, k, rng.choice(["g", "r"])))
            elif x < 0.7:
                grp.append("keys %d" % h)
            elif x < 0.8:
                grp.append("gc")
            elif x < 0.9:
                grp.append("begin " + rng.choice(["RU", "RC", "RR", "SER"]))
            elif h:
                grp.append("%s %d" % (rng.choice(["commit", "rollback"]), h))
                live.remove(h)
            else:
                grp.append("get 0 %d g" % k)
        ls.append("par " + " || ".join(grp))
        for g in grp:
            if g.startswith("begin"):
                ntx += 1
                live.append(ntx)
    ls += ["drain", "end"]
    return "\n".join(ls)


def gen_tx_case(rng, cid):
    """transaction-heavy programs: several handles whose first writes, commits and rollbacks run concurrently (the pools of
    version stores and nodes, the registry and the store map are hit from both sides)"""
    ls = ["case %s roots=%d" % (cid, rng.choice([1, 2])), "keytab 6b31 6b32 6b33"]
    v, ntx = 0, 0
    for _ in range(rng.randint(2, 4)):
        k = rng.randint(3, 5)
        ls.append("par " + " || ".join("begin " + rng.choice(["RU", "RC", "RR", "SER"]) for _ in range(k)))
        hs = list(range(ntx + 1, ntx + k + 1))
        ntx += k
        grp = []
        for h in hs[: k // 2 + 1]:
            v += 1
            grp.append("set %d %d %d %d s" % (h, rng.randint(1, 3), v, rng.choice([1, 5, 2049])))
        ls.append("par " + " || ".join(grp))
        grp = []
        for h in hs:
            x = rng.random()
            if h in hs[: k // 2 + 1]:
                grp.append("%s %d" % ("commit" if x < 0.7 else "rollback", h))
            else:
                v += 1
                grp.append("set %d %d %d 3 s" % (h, rng.randint(1, 3), v))      # a first write racing with the commits
        grp.append(rng.choice(["gc", "keys 0", "get 0 1 g"]))
        ls.append("par " + " || ".join(grp))
        ls.append("par " + " || ".join("%s %d" % (rng.choice(["commit", "rollback"]), h) for h in hs[k // 2 + 1:]) + " || get 0 2 g")
    ls += ["drain", "end"]
    return "\n".join(ls)


def parse_reports(text):
    reps = []
    for blk in text.split("=================="):
        if "WARNING: DATA RACE" not in blk:
            continue
        frames = re.findall(r"^\s+((?:[\w./\-]+)\.(?:\(\*?[\w\[\],. ]+\)\.)?[\w.\[\]·]+)\(\)\s*\n\s+(\S+?):(\d+)", blk, re.M)
        fs = [f for f in frames if f[0].startswith(FSDB) and not any(p in f[0] for p in HOOKPKGS)]
        # access stacks only (goroutine-creation stacks do not make a race fs_db's)
        acc = blk.split("Goroutine ")[0]
        accframes = re.findall(r"^\s+((?:[\w./\-]+)\.(?:\(\*?[\w\[\],. ]+\)\.)?[\w.\[\]·]+)\(\)", acc, re.M)
        accfs = [f for f in accframes if f.startswith(FSDB) and not any(p in f for p in HOOKPKGS)]
        reps.append(dict(text=blk.strip()[:6000], fsdb=bool(accfs), top=sorted(set(accfs[:1] + accfs[-1:])), nframes=len(fs)))
    return reps


def run_race(binary, cases, mode, shards=None):
    shards = shards or min(C.NCPU, max(1, len(cases) // 3))
    chunks = [cases[i::shards] for i in range(shards)]

    def one(chunk):
        if not chunk:
            return [], []
        d = tempfile.mkdtemp(prefix="verif-race-")
        try:
            p = os.path.join(d, "cases.txt")
            with open(p, "w") as f:
                f.write("\n".join(chunk) + "\n")
            env = dict(os.environ, GORACE="log_path=%s/race exitcode=0 history_size=3 halt_on_error=0" % d)
            rc, out, err = C.sh2([binary, "hist", p] + ([mode] if mode != "inline" else []), timeout=900, env=env)
            if rc != 0:
                raise C.CheckBroken("fsdbh-race hist failed rc=%s: %s" % (rc, (err or out)[-3000:]))
            outs = G.split_outputs([l for l in out.split("\n") if l.strip()])
            if len(outs) != len(chunk):
                raise C.CheckBroken("fsdbh-race: %d outputs for %d cases" % (len(outs), len(chunk)))
            text = err
            for lf in glob.glob(os.path.join(d, "race.*")):
                text += open(lf, errors="replace").read()
            return outs, parse_reports(text)
        finally:
            shutil.rmtree(d, ignore_errors=True)
    with cf.ThreadPoolExecutor(max_workers=shards) as ex:
        parts = list(ex.map(one, chunks))
    outs, reps = [], []
    for o, r in parts:
        outs += o
        reps += r
    return outs, reps


def run(rep):
    rng = C.rng_for(rep.seed, "c15")
    proof_ok = C.proof_step(rep, "C15")
    racebin = C.ensure_harness(race=True)
    sk = LS.check(rep, C.ensure_harness(), ["Store", "UpdateTx", "DeleteOld", "DeleteTx", "Get", "GetFiles",
                                             "core.", "dir.", "txrepo.", "di."])
    corpus = P.corpus("c15.txt")
    n = 60 if rep.tier == "quick" else 4000
    if LS.broken(sk):
        n = max(n, 400)
    cases = corpus + [gen_case(rng, "r%d" % i) for i in range(n)] + [gen_tx_case(rng, "t%d" % i) for i in range(n // 2)]
    total, fsdb_reports, harness_reports, bad = 0, {}, 0, 0
    per_mode = {}
    for mode in ("inline", "grpc"):
        sub = cases if mode == "inline" else cases[: max(len(corpus), len(cases) // 3)]
        outs, reps = run_race(racebin, sub, mode)
        per_mode[mode] = dict(cases=len(sub), reports=len(reps))
        total += len(sub)
        for c, o in zip(sub, outs):
            if any(("PANIC" in l) or ("TIMEOUT" in l) for l in o):
                bad += 1
                rep.violation(dict(kind="oracle", what="panic or an operation that did not return under the race-detector build (%s)" % mode,
                                   case=c, impl=o))
        for r in reps:
            if r["fsdb"]:
                fsdb_reports.setdefault((mode, tuple(r["top"])), r)
            else:
                harness_reports += 1
    for (mode, top), r in fsdb_reports.items():
        rep.violation(dict(kind="oracle", what="the Go race detector reports a data race inside fs_db (%s): %s" % (mode, " / ".join(top)),
                           report=r["text"], mode=mode,
                           how_to_replay="./check C15 --tier %s with VERIF_SEED=%s (the detector needs the racing schedule to occur)" % (rep.tier, rep.seed)))
    if harness_reports:
        raise C.CheckBroken("%d race reports with no fs_db frame in an access stack: the harness itself races" % harness_reports)
    ops = {}
    for c in cases:
        for l in c.split("\n"):
            if l.startswith("par "):
                for g in l[4:].split(" || "):
                    ops[g.split()[0]] = ops.get(g.split()[0], 0) + 1
    rep.coverage.update(
        evaluations=total, distinct_nontrivial=len({C.case_hash(c) for c in cases}),
        rule="programs of 3-6 concurrent groups (2-5 goroutines each: autocommit and transactional Set (plain, slow reader, context "
             "cancelled mid-stream)/Delete/Get/GetKeys, Begin at every isolation level, Commit/Rollback, collection passes; first use of "
             "the handle concurrent in half the programs; 1-3 roots) run on the harness built with `go build -race -tags verif`, inline "
             "and over a real gRPC server+client in one process; every detector report whose access stacks contain an fs_db frame is a "
             "violation; reports without one mean the harness is broken",
        concurrent_ops=ops, per_mode=per_mode, fsdb_race_reports=len(fsdb_reports), panics_or_hangs=bad,
        traces_validated_against_impl=total, proof_ok=proof_ok,
        samples=[dict(case=cases[len(corpus)].split("\n"))],
        partial_theorems=["C15_lockset_sound (the discipline implies race freedom; that the compiled code follows the discipline is the detector's part)"])
    LS.conclude(rep, sk, 'every access of a version store under its lock, writes under the write lock: C15_core_accesses_protected')
    rep.assumptions = ["the Go race detector is sound for the schedules that occur (no false positives) and reports only races it observes: "
                       "a race on a schedule that did not occur in this run is missed",
                       "fsdb_access_table (location class -> protecting lock) is read from the source, not extracted from it",
                       "one transaction handle is used by one goroutine at a time (the documented contract; the generator obeys it)"]


def replay(rep, path):
    p = json.load(open(path))
    print(p.get("report") or json.dumps(p, indent=1))
    return 0
