"""C04 — crash at any point between two persistent mutations, also inside recovery."""
import concurrent.futures as cf
import json
import os
import random
import shutil
import tempfile

from lib import common as C
from lib import histgen as G
from lib import histcheck as H

# persistent micro-steps of every operation (DESIGN.md appendix A.2), as event classes
CLEAN = ["remove", "kv.delete:fileContent", "kv.delete:file"]


def gen_workload(rng, wid):
    c = G.gen_history(rng, wid, profile=rng.choice(["mixed", "conflict", "conflict", "autocommit"]), probe_p=0.0, gc_p=0.15,
                      nops=rng.choice([6, 9, 12, 15]), nkeys=rng.randint(1, 2))
    ls = [l for l in c.split("\n")]
    # small contents only (every crash point is a separate process run), no probes at the end
    out = []
    for l in ls[2:-1]:
        t = l.split()
        if t[0] == "set":
            t[4] = str(min(int(t[4]), 64))
            t[5] = "s"
            l = " ".join(t)
        if t[0] in ("drain",):
            continue
        out.append(l)
    # drop the generator's final probe (reads are not interesting crash points)
    while out and out[-1].split()[0] in ("get", "keys"):
        out.pop()
    return ls[1], out


def expected_events(op, res):
    t = op.split()
    if t[0] == "set":
        if res == "ok":
            return ["create", "kv.set:fileContent", "kv.set:file"]
        return []
    if t[0] == "del":
        return ["kv.set:file"]
    return None          # commit / rollback / gc: cleaning steps depend on the state; checked structurally


def run_child(fsdbh, keytab, ops, base, n):
    d = tempfile.mkdtemp(prefix="verif-c04s-")
    try:
        p = os.path.join(d, "w.txt")
        with open(p, "w") as f:
            f.write("\n".join(["case w dir=%s" % base, keytab] + ops + ["end"]) + "\n")
        rc, out, err = C.sh2([fsdbh, "crash-child", p, str(n)], timeout=120)
        return rc, [l for l in out.split("\n") if l.strip()], err
    finally:
        shutil.rmtree(d, ignore_errors=True)


def observe(fsdbh, keytab, base, nkeys):
    probe = ["keys 0"] + ["get 0 %d g" % k for k in range(1, nkeys + 1)]
    lines = ["case o dir=%s" % base, keytab] + probe + ["end"]
    out = C.run_lines(fsdbh, "hist", lines, timeout=120)
    return out[1:-1]


def spec_views(keytab, prefix_ops, nkeys):
    """probe results of the abstract machine after `prefix_ops; reopen`"""
    probe = ["keys 0"] + ["get 0 %d g" % k for k in range(1, nkeys + 1)]
    case = "\n".join(["case s", keytab] + prefix_ops + ["reopen"] + probe + ["end"])
    so = H.canon(case, H.run_model("hist-spec", [case])[0])
    mo = H.canon(case, H.run_model("hist", [case])[0])
    return so[-(len(probe) + 1):-1], mo[-(len(probe) + 1):-1]


def may_be_visible(op):
    t = op.split()
    return (t[0] in ("set", "del") and t[1] == "0") or t[0] == "commit"


def crash_run(fsdbh, keytab, ops, nkeys, n, recovery_crash=None):
    """one crash point; Badger's own files can be caught half-created by the kill (its crash consistency is an
    assumption of DESIGN section 3, and the kill instant relative to Badger's background work is random): such a
    run cannot be observed and is repeated"""
    last = None
    for attempt in range(4):
        try:
            return crash_run_once(fsdbh, keytab, ops, nkeys, n, recovery_crash)
        except C.CheckBroken as ex:
            last = ex
            if "badger open" not in str(ex):
                raise
    return dict(n=n, crashed=False, unobservable=str(last)[:200])


def crash_run_once(fsdbh, keytab, ops, nkeys, n, recovery_crash=None):
    base = tempfile.mkdtemp(prefix="verif-c04-")
    try:
        rc, out, err = run_child(fsdbh, keytab, ops, base, n)
        acks = [l for l in out if l.startswith("ACK ")]
        crashed = any(l.startswith("CRASH ") for l in out)
        if not crashed:
            return dict(n=n, crashed=False)
        i = len(acks)
        rec = None
        if recovery_crash:
            # die inside recovery's own cleaning (m-th mutation after reopening), then observe again
            rc2, out2, _ = run_child(fsdbh, keytab, ["keys 0"], base, recovery_crash)
            rec = any(l.startswith("CRASH ") for l in out2)
        obs = observe(fsdbh, keytab, base, nkeys)
        obs2 = observe(fsdbh, keytab, base, nkeys)      # reopening a second time gives the same state
        return dict(n=n, crashed=True, inflight=i, at=[l for l in out if l.startswith("CRASH ")][0], obs=obs, obs2=obs2,
                    recovery_crashed=rec)
    finally:
        shutil.rmtree(base, ignore_errors=True)


def generation_run(fsdbh, rng, gid):
    """a database written by an earlier process (clean exit), then a FRESH process opens it, goes on writing and dies at a
    chosen mutation (or exits); a third process observes.  What the second process acknowledged must be in effect."""
    once = rng.random() < 0.4          # every key written exactly once by the first process: one record per key on disk
    nkeys = rng.randint(2, 5) if once else rng.randint(1, 3)
    keytab = "keytab " + " ".join(("k%d" % k).encode().hex() for k in range(1, nkeys + 1))
    v = 0
    ops1 = []
    if once:
        for k in rng.sample(range(1, nkeys + 1), nkeys):
            v += 1
            ops1.append("set 0 %d %d %d s" % (k, v, rng.choice([1, 3, 64])))
    for _ in range(0 if once else rng.randint(3, 8)):
        v += 1
        ops1.append("set 0 %d %d %d s" % (rng.randint(1, nkeys), v, rng.choice([1, 3, 64])))
    ops2 = []
    for _ in range(rng.randint(1, 4)):
        if rng.random() < 0.75:
            v += 1
            ops2.append("set 0 %d %d %d s" % (rng.randint(1, nkeys), v, rng.choice([1, 5, 2049])))
        else:
            ops2.append("del 0 %d" % rng.randint(1, nkeys))
    if rng.random() < 0.4:
        v += 2
        ops2 += ["begin " + rng.choice(["RC", "SER"]), "set 1 1 %d 4 s" % (v - 1), "set 1 %d %d 4 s" % (nkeys, v), "commit 1"]
    n2 = rng.choice([0, 0, 1, 2, 3, 4, 5, 6, 8, 10])
    base = tempfile.mkdtemp(prefix="verif-c04g-")
    try:
        rc, out1, err = run_child(fsdbh, keytab, ops1, base, 0)
        if rc != 0 or sum(1 for l in out1 if l.startswith("ACK ")) != len(ops1):
            raise C.CheckBroken("first generation failed: rc=%s %s %s" % (rc, out1[-3:], err[-300:]))
        rc, out2, err = run_child(fsdbh, keytab, ops2, base, n2)
        i = sum(1 for l in out2 if l.startswith("ACK "))
        crashed = any(l.startswith("CRASH ") for l in out2)
        try:
            obs = observe(fsdbh, keytab, base, nkeys)
            obs2 = observe(fsdbh, keytab, base, nkeys)
        except C.CheckBroken as ex:
            if "badger open" in str(ex):
                return dict(unobservable=True)
            raise
    finally:
        shutil.rmtree(base, ignore_errors=True)
    pre = ops1 + ["reopen"]
    before_s, _ = spec_views(keytab, pre + ops2[:i], nkeys)
    allowed = [before_s]
    if i < len(ops2) and may_be_visible(ops2[i]):
        allowed.append(spec_views(keytab, pre + ops2[:i + 1], nkeys)[0])
    what = None
    if obs not in allowed:
        what = ("a database written by an earlier process, reopened by a fresh process that went on writing: the state after that "
                "process ended is neither its acknowledged prefix nor prefix + the whole operation in flight")
    elif obs2 != obs:
        what = "reopening a second time gives a different state"
    return dict(gid=gid, keytab=keytab, first_process=ops1, second_process=ops2, crash_before_mutation=n2, crashed=crashed,
                acknowledged_ops=i, observed=obs, observed_again=obs2, allowed=allowed, what=what)


def run(rep):
    rng = C.rng_for(rep.seed, "c04")
    proof_ok = C.proof_step(rep, "C04")
    C.ensure_driver()
    fsdbh = C.ensure_harness()
    nw = 10 if rep.tier == "quick" else 120
    workloads = [gen_workload(rng, "w%d" % i) for i in range(nw)]
    corpus = os.path.join(C.CORPUS, "c04.txt")
    if os.path.exists(corpus):
        for c in G.split_cases(open(corpus).read()):
            ls = c.split("\n")
            workloads.insert(0, (ls[1], ls[2:-1]))
    # one transaction that writes well over a thousand keys and commits (a commit is ONE key-value transaction, whatever its size)
    nbigk = 1300
    bkeytab = "keytab " + " ".join(("b%04d" % k).encode().hex() for k in range(nbigk))
    workloads.append((bkeytab, ["set 0 1 1 3 s", "begin RC"] + ["set 1 %d %d 2 s" % (k, k + 1) for k in range(1, nbigk + 1)] + ["commit 1", "set 0 2 %d 3 s" % (nbigk + 5)]))
    total_points, checked, kinds, viol, rec_points = 0, 0, {}, 0, 0
    ev_mismatch = 0
    unobservable = 0
    samples = []
    for keytab, ops in workloads:
        nkeys = len(keytab.split()) - 1
        base = tempfile.mkdtemp(prefix="verif-c04-")
        try:
            rc, out, err = run_child(fsdbh, keytab, ops, base, 0)
        finally:
            shutil.rmtree(base, ignore_errors=True)
        acks = [l for l in out if l.startswith("ACK ")]
        if rc != 0 or len(acks) != len(ops):
            raise C.CheckBroken("uncrashed workload run failed: rc=%s %s %s" % (rc, out[-3:], err[-500:]))
        # event sequence of the uncrashed run against the micro-step table
        nev = 0
        for op, a in zip(ops, acks):
            res, evs = a[4:].split(" | ")[0].strip(), a.split("|", 1)[1].split()
            evs = [e for e in evs if e != "mkdir"]
            nev += len(a.split("|", 1)[1].split())
            exp = expected_events(op, res)
            bad = False
            if exp is not None:
                # any number of content-file writes between create and close
                core = [e for e in evs if e != "os.write"]
                if "create" in exp:
                    exp = ["create", "os.close", "kv.set:fileContent", "kv.set:file"]
                    i0 = evs.index("create") if "create" in evs else 0
                    i1 = evs.index("os.close") if "os.close" in evs else len(evs)
                    bad = core != exp or any(e != "os.write" for e in evs[i0 + 1:i1])
                else:
                    bad = evs != exp
            else:
                evs = [e for e in evs if e != "os.close"]      # closing a file opened for reading: not a mutation
                body = evs[1:] if (op.startswith("commit") and evs[:1] == ["kv.txn"]) else evs
                bad = len(body) % 3 != 0 or any(body[j:j + 3] != CLEAN for j in range(0, len(body), 3))
                if op.startswith("commit") and res == "ok" and evs[:1] != ["kv.txn"] and any(
                        o.split()[0] in ("set", "del") and o.split()[1] == op.split()[1] for o in ops[:ops.index(op)]):
                    bad = True
            if bad:
                ev_mismatch += 1
                if ev_mismatch <= 2:
                    rep.violation(dict(kind="correspondence", correspondence="persistent mutation events of one operation vs the "
                                       "micro-step table (DESIGN appendix A.2)", workload=ops, operation=op, events=evs,
                                       expected=exp or "[kv.txn] (remove kv.delete:fileContent kv.delete:file)*"), no_input=True)
        total_points += nev
        points = range(1, nev + 1)
        if nev > 400:
            # a very large commit: every mutation cannot be a crash point; take the ones around each key-value
            # transaction commit (a commit must be ONE of them) and a seeded sample of the others
            flat = []
            for a in acks:
                flat += a.split("|", 1)[1].split()
            near = set()
            for j, e in enumerate(flat):
                if e == "kv.txn":
                    near |= {j, j + 1, j + 2}
            points = sorted({n for n in near if 1 <= n <= nev} | set(rng.sample(range(1, nev + 1), 12)))
        with cf.ThreadPoolExecutor(max_workers=C.NCPU) as ex:
            futs = [ex.submit(crash_run, fsdbh, keytab, ops, nkeys, n,
                              (1 + (n % 3)) if (rep.tier == "thorough" or n % 4 == 0) else None)
                    for n in points]
            results = [f.result() for f in futs]
        for r in results:
            if r.get("unobservable"):
                unobservable += 1
            if not r["crashed"]:
                continue
            checked += 1
            if r.get("recovery_crashed"):
                rec_points += 1
            k = r["at"].split()[2]
            kinds[k] = kinds.get(k, 0) + 1
            i = r["inflight"]
            before_s, before_m = spec_views(keytab, ops[:i], nkeys)
            allowed = [before_s]
            if i < len(ops) and may_be_visible(ops[i]):
                after_s, _ = spec_views(keytab, ops[:i + 1], nkeys)
                allowed.append(after_s)
            what = None
            if r["obs"] not in allowed:
                what = "state after the crash is neither the acknowledged prefix nor prefix + the whole operation in flight"
            elif r["obs2"] != r["obs"]:
                what = "reopening a second time (or after a crash inside recovery) gives a different state"
            else:
                # every listed key is readable with one complete stored content
                keys = r["obs"][0].split()[1:]
                for kk in keys:
                    if not r["obs"][int(kk)].startswith("val "):
                        what = "GetKeys lists key %s which Get cannot read" % kk
            if what:
                viol += 1
                if viol <= 3:
                    rep.violation(dict(kind="oracle", what=what, keytab=keytab, workload=ops, crash_before_mutation=r["n"],
                                       crashed_at=r["at"], acknowledged_ops=i, in_flight=ops[i] if i < len(ops) else None,
                                       observed=r["obs"], observed_after_second_reopen=r["obs2"], allowed=allowed,
                                       case="\n".join(["case w", keytab] + ops + ["end"])))
            if len(samples) < 2:
                samples.append(dict(workload=ops, crash_before_mutation=r["n"], crashed_at=r["at"], acknowledged=i,
                                    observed=r["obs"]))
    # generations: the crash happens in a process that OPENED an existing database (its counters come from Load)
    ng = 32 if rep.tier == "quick" else 400
    grng = C.rng_for(rep.seed, "c04-gen")
    with cf.ThreadPoolExecutor(max_workers=C.NCPU) as ex:
        gres = list(ex.map(lambda g: generation_run(fsdbh, random.Random(grng.random()), g), range(ng)))
    gbad = 0
    for r in gres:
        if r.get("unobservable"):
            unobservable += 1
        elif r["what"]:
            gbad += 1
            if gbad <= 2:
                rep.violation(dict(kind="oracle", **r))
    rep.coverage.update(
        generation_runs=dict(runs=ng, crashed=sum(1 for r in gres if r.get("crashed")), violations=gbad,
                             rule="first process writes 3-8 versions and exits; a fresh process opens the directory, performs 1-8 "
                                  "more operations and dies before its n-th mutation (or exits); a third process observes"),
        evaluations=checked, distinct_nontrivial=checked, crash_points_total=total_points, workloads=len(workloads),
        crash_points_by_mutation_kind=kinds, crash_points_inside_recovery=rec_points, exhaustive=True,
        exhaustive_part="every persistent mutation of every workload except the one 1300-key commit workload, where the crash points are "
                        "those around each key-value transaction commit plus a seeded sample of 12",
        rule="seeded workloads of 6-15 operations (autocommit and transactional writes, deletes, commits incl. conflicts, "
             "rollbacks, collections); for EVERY persistent mutation of the uncrashed run (mkdir, create, remove, Badger set / "
             "delete / transaction commit; counted through verifhook.Mut with one pool worker so the order is deterministic) the "
             "workload is re-run in a child process that dies (os.Exit) right before that mutation; a fresh process reopens the "
             "directory and reads every key and GetKeys, twice; for a quarter of the points (all in thorough) a further process "
             "dies inside recovery's own cleaning first; the observed state must equal the abstract machine after the acknowledged "
             "operations, or after those plus the operation in flight when that is an autocommit write or a Commit; every crash "
             "point is a distinct non-trivial case",
        traces_validated_against_impl=checked, event_sequence_mismatches=ev_mismatch,
        crash_points_unobservable_badger_open_failed=unobservable,
        samples=samples, proof_ok=proof_ok)
    rep.assumptions = ["process death (os.Exit), not power loss: Badger runs with SyncWrites=false and page-cache contents survive",
                       "every File.Write and Close of a content file is a crash point too (a torn content file without its records is invisible)",
                       "one pool worker in the crashing child so that mutation numbering is reproducible"]


def replay(rep, path):
    p = json.load(open(path))
    fsdbh = C.ensure_harness()
    C.ensure_driver()
    keytab, ops = p["keytab"], p["workload"]
    nkeys = len(keytab.split()) - 1
    r = crash_run(fsdbh, keytab, ops, nkeys, p["crash_before_mutation"])
    print(json.dumps(r, indent=1))
    i = r.get("inflight", 0)
    before_s, _ = spec_views(keytab, ops[:i], nkeys)
    print("allowed (acknowledged prefix):", before_s)
    return 0 if r.get("obs") == before_s else 1
