"""C05 — reopening preserves the committed state; later writes keep winning; several instances per process."""
import os
import shutil
import tempfile

from lib import common as C
from lib import lockskel as LS
from lib import histgen as G
from lib import histcheck as H
from lib import histprops as P


def gen_big(rng, cid):
    """a store with well over a hundred version records (Badger's iterator recycles its buffers after 100 prefetched
    items), then Close/Open and a read of everything"""
    nk = rng.choice([60, 110, 150, 220])
    ls = ["case %s roots=1" % cid, "keytab " + " ".join(("k%03d" % k).encode().hex() for k in range(nk))]
    v = 0
    for k in range(1, nk + 1):
        v += 1
        ls.append("set 0 %d %d %d s" % (k, v, rng.choice([1, 3, 7])))
    for _ in range(nk // 3):
        k = rng.randint(1, nk)
        if rng.random() < 0.6:
            v += 1
            ls.append("set 0 %d %d %d s" % (k, v, rng.choice([2, 5])))
        else:
            ls.append("del 0 %d" % k)
    if rng.random() < 0.5:
        ls += ["begin RC"] + ["set 1 %d %d 4 s" % (rng.randint(1, nk), v + j + 1) for j in range(5)] + ["commit 1"]
        v += 5
    ls += ["reopen", "keys 0"] + ["get 0 %d g" % k for k in range(1, nk + 1)]
    v += 1
    ls += ["set 0 1 %d 3 s" % v, "reopen", "keys 0", "get 0 1 g", "get 0 %d g" % nk, "end"]
    return "\n".join(ls)


def gen(rng, tier):
    n = 140 if tier == "quick" else 3000
    cases = [G.gen_history(rng, "r%d" % i, profile=rng.choice(["mixed", "conflict", "autocommit"]), reopen_p=0.08,
                           probe_p=0.15, gc_p=0.04, nkeys=rng.randint(1, 4)) for i in range(n)]
    return cases + [gen_big(rng, "big%d" % i) for i in range(3 if tier == "quick" else 30)]


def project(case, inst):
    """the history of one instance of a multi-instance case, as a plain case"""
    out = []
    for l in case.split("\n"):
        t = l.split()
        if not t:
            continue
        if t[0].startswith("@"):
            if int(t[0][1:]) == inst:
                if t[1] == "closedb":
                    out.append("reopen")        # Close now, Open at next use: a reopen for the model
                else:
                    out.append(" ".join(t[1:]))
        elif t[0] in ("case", "keytab", "end"):
            out.append(l)
    return "\n".join(out)


def gen_multi(rng, cid, ninst):
    """interleaved histories of ninst instances sharing the process (and so the sequence counter)"""
    hs = [G.Hist(rng, "x", nkeys=2, nops=rng.choice([15, 30, 50])) for _ in range(ninst)]
    for h in hs:
        h.keys = hs[0].keys
        h.nkeys = hs[0].nkeys
    lines = ["case %s roots=1" % cid, "keytab " + " ".join(k.hex() for k in hs[0].keys)]
    total = sum(h.nops for h in hs)
    nv = 0
    for _ in range(total):
        i = rng.randrange(ninst)
        h = hs[i]
        before = len(h.lines)
        x = rng.random()
        if x < 0.35:
            h.nv = nv; h.set(rng.choice(h.open + [0]) if h.open else 0, big=False); nv = h.nv
        elif x < 0.45:
            h.delete(rng.choice(h.open + [0]) if h.open else 0)
        elif x < 0.6:
            h.get(rng.choice(h.open + [0]) if h.open else 0)
        elif x < 0.66 and len(h.open) < 3:
            h.begin()
        elif x < 0.76 and h.open:
            h.end(rng.choice(h.open), rng.choice(["commit", "commit", "rollback"]))
        elif x < 0.86:
            # Close and Open (handles of this instance die)
            h.emit(rng.choice(["reopen", "closedb"]))
            h.open = []
            h.ended = []
        elif x < 0.9:
            h.emit("gc")
        else:
            h.probe([])
        for l in h.lines[before:]:
            lines.append("@%d %s" % (i, l))
    for i, h in enumerate(hs):
        before = len(h.lines)
        h.probe([])
        for l in h.lines[before:]:
            lines.append("@%d %s" % (i, l))
    lines.append("end")
    return "\n".join(lines)


def check_multi(rep, fsdbh, cases, ninst_of):
    """each instance's outputs must equal the model run of that instance's own history"""
    impl = H.run_sharded(fsdbh, "hist", cases)
    bad = 0
    for c, o in zip(cases, impl):
        ninst = ninst_of(c)
        body = [l for l in c.split("\n") if not l.startswith("keytab")]
        for inst in range(ninst):
            pc = project(c, inst)
            mo = H.canon(pc, H.run_model("hist", [pc])[0])
            so = H.canon(pc, H.run_model("hist-spec", [pc])[0])
            io = [o[0]] + [r for l, r in zip(body[1:-1], o[1:-1]) if l.split()[0] == "@%d" % inst] + [o[-1]]
            if io != mo or io != so:
                bad += 1
                if bad <= 3:
                    d = H.first_diff(io, so)
                    ops = [l for l in pc.split("\n") if not l.startswith("keytab")]
                    rep.violation(dict(kind="oracle", what="an instance sharing its process with other instances answers "
                                       "differently from its own history's specification",
                                       case=c, instance=inst, instance_history=pc,
                                       failing_step=ops[d] if d is not None and d < len(ops) else None,
                                       impl=io, model=mo, spec=so))
    return impl, bad


def cross_process(rep, fsdbh, rng, n):
    """instance 1 is prepared by an EARLIER process (so its persisted sequences are above a fresh counter);
    a second process opens instance 0 first, then instance 1, writes and reopens it"""
    bad = 0
    runs = []
    for i in range(n):
        base = tempfile.mkdtemp(prefix="verif-c05-")
        try:
            nw = rng.randint(2, 8)
            keys = "keytab 6b31 6b32"
            p1 = ["case p1 dir=%s" % base, keys] + ["@1 set 0 %d %d 3 s" % (rng.randint(1, 2), v + 1) for v in range(nw)] + ["end"]
            n0 = rng.randint(0, 3)
            if i % 2 == 1:
                # one record per key on disk, the overwritten key holding the newest persisted number, and nothing that
                # moves the fresh process's counter before the database is opened: the counter comes from Load alone
                p1 = ["case p1 dir=%s" % base, keys, "@1 set 0 2 1 3 s", "@1 set 0 1 2 3 s", "end"]
                n0 = 0
            p2 = ["case p2 dir=%s" % base, keys]
            p2 += ["@0 set 0 1 %d 2 s" % (100 + j) for j in range(n0)] or ["@0 get 0 1 g"]
            body2 = ["get 0 1 g", "get 0 2 g", "set 0 1 %d 5 s" % (200 + i), "get 0 1 g", "reopen", "get 0 1 g", "get 0 2 g",
                     "del 0 2", "reopen", "get 0 2 g", "keys 0"]
            p2 += ["@1 " + l for l in body2] + ["end"]
            o1 = C.run_lines(fsdbh, "hist", p1)
            o2 = C.run_lines(fsdbh, "hist", p2)
            # the model of instance 1: phase 1, process restart (= reopen), phase 2
            hist1 = ["case m", keys] + [l[3:] for l in p1[2:-1]] + ["reopen"] + body2 + ["end"]
            pc = "\n".join(hist1)
            so = H.canon(pc, H.run_model("hist-spec", [pc])[0])
            mo = H.canon(pc, H.run_model("hist", [pc])[0])
            io = ["case m"] + o1[1:-1] + ["ok"] + [r for l, r in zip(p2[2:-1], o2[1:-1]) if l.startswith("@1 ")] + ["end"]
            runs.append(dict(phase1=p1[2:-1], phase2=p2[2:-1], impl=io[-8:]))
            if io != so or io != mo:
                bad += 1
                if bad <= 2:
                    d = H.first_diff(io, so)
                    ops = [l for l in hist1 if not l.startswith("keytab")]
                    rep.violation(dict(kind="oracle", what="a write acknowledged after reopening is not in effect after a later reopen "
                                       "(database prepared by an earlier process, opened after another instance)",
                                       phase1=p1, phase2=p2, failing_step=ops[d] if d is not None and d < len(ops) else None,
                                       impl=io, spec=so, case=pc))
        finally:
            shutil.rmtree(base, ignore_errors=True)
    return runs, bad


def run(rep):
    rng = C.rng_for(rep.seed, "C05x")
    st, cases = P.run_hist_property(
        rep, "C05", gen, corpus_file="c05.txt",
        rule="(a) seeded single-instance histories with Close/Open at random positions (8% of the steps) among transactional and "
             "autocommit operations, probes after every reopen; (b) 2-3 database instances interleaved in ONE process (shared "
             "sequence counter), each with Close/Open, each compared with the model/spec run of its own history; (c) cross-process: "
             "an instance prepared by an earlier process is opened AFTER another instance in a fresh process, written, reopened "
             "(the witness of the repaired defect D1); non-trivial = a read after a write of the same key")
    fsdbh = C.FSDBH
    # "the newest version in memory is the one Load will pick" needs: number, record and list append in ONE critical section
    sk = LS.check(rep, fsdbh, ["Store", "UpdateTx"])
    nm = 24 if rep.tier == "quick" else 400
    multi = [gen_multi(rng, "mi%d" % i, rng.choice([2, 2, 3])) for i in range(nm)]

    def ninst_of(c):
        return 1 + max(int(l.split()[0][1:]) for l in c.split("\n") if l.startswith("@"))
    _, bad_multi = check_multi(rep, fsdbh, multi, ninst_of)
    runs, bad_cross = cross_process(rep, fsdbh, rng, 8 if rep.tier == "quick" else 60)
    rep.coverage.update(multi_instance_cases=len(multi), multi_instance_mismatches=bad_multi,
                        cross_process_runs=len(runs), cross_process_mismatches=bad_cross,
                        cross_process_sample=runs[:1],
                        refuted_theorems=["C05_later_writes_win_refuted_orig (original sequence.Set; repaired by a fix: commit)"])
    # (d) concurrent writers of one key, then Close/Open: what was readable before Close is readable after Open
    nc = (40 if rep.tier == "quick" else 600) * (4 if LS.broken(sk) else 1)
    conc = []
    for i in range(nc):
        k = rng.randint(2, 4)
        ls = ["case cw%d roots=1" % i, "keytab 6b31 6b32"]
        v = 0
        for _ in range(rng.randint(1, 3)):
            grp = []
            for _ in range(k):
                v += 1
                grp.append("set 0 %d %d %d s" % (rng.choice([1, 1, 2]), v, rng.choice([1, 5, 2049])))
            ls.append("par " + " || ".join(grp))
        ls += ["get 0 1 g", "get 0 2 g", "keys 0", "reopen", "get 0 1 g", "get 0 2 g", "keys 0", "end"]
        conc.append("\n".join(ls))
    cout = H.run_sharded(fsdbh, "hist", conc)
    bad_conc = 0
    for c, o in zip(conc, cout):
        if o[-8:-5] != o[-4:-1]:
            bad_conc += 1
            if bad_conc <= 2:
                rep.violation(dict(kind="oracle", what="after concurrent writes to one key, what Get/GetKeys returned before Close "
                                   "differs from what they return after Open, with no write in between", case=c, impl=o,
                                   before_close=o[-8:-5], after_open=o[-4:-1]))
    rep.coverage.update(concurrent_writer_cases=len(conc), concurrent_writer_mismatches=bad_conc)
    LS.conclude(rep, sk, "the sequence number, the persisted record and the in-memory append of a write are one critical section, so "
                         "memory order = persisted order: C08_needs_held / C06_one_critical_section for Store and UpdateTx")
    rep.coverage["evaluations"] += len(multi) + len(runs) + len(conc)
    rep.assumptions = ["other instances in the process influence this one only through the global sequence counter",
                       "Close drains the worker pool first (pending cleaner jobs at Close are re-derived by Load)"]


def replay(rep, path):
    return P.replay_hist(rep, path)
