"""C06 — concurrent operations individually atomic (linearizable), no deadlock/panic."""
import json

from lib import common as C
from lib import lockskel as LS
from lib import histcheck as H
from lib import histprops as P
from lib import parcheck as PC


def gen_case(rng, cid):
    nkeys = rng.randint(1, 2)
    keys = sorted(rng.sample([b"a", b"b", b"c"], nkeys))
    ls = ["case %s roots=1" % cid, "keytab " + " ".join(k.hex() for k in keys)]
    v = 0
    for k in range(1, nkeys + 1):
        if rng.random() < 0.8:
            v += 1
            ls.append("set 0 %d %d %d s" % (k, v, rng.choice([1, 3, 2049])))
    ntx = rng.randint(0, 2)
    for t in range(1, ntx + 1):
        ls.append("begin " + rng.choice(["RU", "RC"]))
        if rng.random() < 0.7:
            v += 1
            ls.append("set %d %d %d 4 s" % (t, rng.randint(1, nkeys), v))
    groups = []
    for _ in range(rng.randint(2, 4)):
        x = rng.random()
        h = rng.choice([0] + list(range(1, ntx + 1)))
        k = rng.randint(1, nkeys)
        if x < 0.35:
            v += 1
            groups.append("set %d %d %d %d %s" % (h, k, v, rng.choice([1, 5, 2049]), rng.choice(["s", "r100", "c1"])))
        elif x < 0.45:
            groups.append("del %d %d" % (h, k))
        elif x < 0.7:
            groups.append("get %d %d g" % (h, k))
        elif x < 0.8:
            groups.append("keys %d" % h)
        elif x < 0.9:
            groups.append("gc")
        elif ntx and not any(g.startswith(("commit", "rollback")) for g in groups):
            groups.append("%s %d" % (rng.choice(["commit", "rollback"]), rng.randint(1, ntx)))
        else:
            groups.append("get 0 %d r" % k)
    # a transaction is used by one goroutine at a time: at most one group member per handle
    seen, uniq = set(), []
    for g in groups:
        t = g.split()
        h = t[1] if t[0] not in ("gc",) else "gc"
        key = h if h != "0" else None
        if key and key in seen:
            continue
        if key:
            seen.add(key)
        uniq.append(g)
    if len(uniq) < 2:
        uniq.append("get 0 1 g")
    ls.append("par " + " || ".join(uniq))
    ls += ["keys 0"] + ["get 0 %d g" % k for k in range(1, nkeys + 1)]
    for t in range(1, ntx + 1):
        ls += ["get %d %d g" % (t, k) for k in range(1, nkeys + 1)]
    ls += ["drain", "gc"] + ["get 0 %d g" % k for k in range(1, nkeys + 1)]
    ls.append("end")
    return "\n".join(ls)


def d11b_signature(case, out):
    """a GetKeys in the concurrent group (racing with an overwrite/collection) lists fewer keys than EVERY sequential order
    gives, every listed key is listed by some sequential order, and every other result equals one sequential order"""
    groups = PC.groups_of(case)
    i = PC.par_index(case) - 1
    res = [r.strip() for r in out[i].split("||")]
    alts = PC.all_sequential_outputs(case)
    if not any(x.startswith(("gc", "set", "del", "commit")) for x in groups):
        return False
    for a in alts:
        ares = [r.strip() for r in a[i].split("||")]
        if a[:i] + a[i + 1:] != out[:i] + out[i + 1:]:
            continue
        ok, deviates = True, False
        for g, r, ar in zip(groups, res, ares):
            if r == ar:
                continue
            if g.startswith("keys") and r.startswith("keys") and ar.startswith("keys") and set(r.split()[1:]) < set(ar.split()[1:]):
                deviates = True
            else:
                ok = False
        if ok and deviates:
            return True
    return False


def run(rep):
    rng = C.rng_for(rep.seed, "c06")
    proof_ok = C.proof_step(rep, "C06")
    C.ensure_driver()
    fsdbh = C.ensure_harness()
    sk = LS.check(rep, fsdbh, ["Store", "UpdateTx", "DeleteOld", "DeleteTx", "Get", "GetFiles"])
    known = {f["id"]: f for f in C.known_findings("C06") if f.get("status") == "open"}
    # 1. the scripted witnesses: C06_read_atomic_refuted_orig (Get; repaired: the read must return a value now) and
    #    C06_keys_atomic_refuted (GetKeys; known finding D11b)
    wit = [c for c in P.corpus("conc_witnesses.txt") if c.split("\n")[0].split()[1] in ("d11", "d11b", "d11c", "d11d")]
    wout = H.run_sharded(fsdbh, "hist", wit, shards=1)
    reproduced = {}
    for c, o in zip(wit, wout):
        cid = c.split("\n")[0].split()[1]
        ops = [l for l in c.split("\n") if not l.startswith("keytab")]
        if any(r in ("AWAIT-TIMEOUT", "WAIT-TIMEOUT") or r.startswith("PANIC") for r in o):
            raise C.CheckBroken("scripted schedule did not run as scripted: %s" % o)
        r = o[ops.index("wait R")]
        if cid in ("d11", "d11c", "d11d"):
            # d11: overwrite + complete collection between look-up and fetch; d11c: the collection is parked between
            # removing the content file and deleting its record; d11d: the read is overtaken twice
            if not r.startswith("val "):
                rep.violation(dict(kind="oracle", what="a read of a key that had a value throughout returned %s (look-up, then overwrite + "
                                   "collection, then fetch: the repaired read resolves the version again)" % r, case=c, impl=o))
        else:
            if r.strip() == "keys":
                reproduced["D11b"] = r
                if "D11b" in known:
                    rep.known_finding("D11b: %s (scripted schedule reproduced)" % known["D11b"]["what"])
                else:
                    rep.violation(dict(kind="oracle", what="GetKeys omitted a key that had a value throughout", case=c, impl=o))
            elif r.strip() != "keys 1":
                rep.violation(dict(kind="oracle", what="GetKeys returned %s" % r, case=c, impl=o))
    # 2. concurrent groups under the real scheduler: linearizability against the model
    n = 1000 if rep.tier == "quick" else 8000
    if LS.broken(sk):
        n = max(n, 1500)        # a proof obligation about the source broke: search harder for a concrete failing input
    cases = [gen_case(rng, "l%d" % i) for i in range(n)]
    impl = H.run_sharded(fsdbh, "hist", cases, timeout=150 if rep.tier == "quick" else 900)
    orders, unmatched, sizes = {}, 0, {}
    for c, o in zip(cases, impl):
        g = len(PC.groups_of(c))
        sizes[g] = sizes.get(g, 0) + 1
        if any(("PANIC" in l) or ("TIMEOUT" in l) for l in o):
            rep.violation(dict(kind="oracle", what="panic or an operation that did not return", case=c, impl=o))
            continue
        perm = PC.match_sequential(c, o)
        if perm is None:
            unmatched += 1
            if "D11b" in known and d11b_signature(c, o):
                rep.known_finding("D11b: %s (hit by an un-paused race: case %s)" % (known["D11b"]["what"], c.split("\n")[0]))
            else:
                rep.violation(dict(kind="oracle", what="the concurrent operations are not linearizable: the results and the final "
                                   "state equal no sequential order", case=c, impl=o))
        else:
            orders[len(perm)] = orders.get(len(perm), 0) + 1
    rep.coverage.update(
        evaluations=len(cases) + len(wit), distinct_nontrivial=len({C.case_hash(c) for c in cases}),
        rule="(1) the scripted schedules of C06_read_atomic_refuted_orig and C06_keys_atomic_refuted through the pause points get.afterLookup / getkeys.afterLookup; (2) seeded programs of 2-4 "
             "concurrent operations (autocommit and RU/RC-transaction Set/Delete/Get/GetKeys, Commit/Rollback, a collection pass; one "
             "goroutine per transaction) on 1-2 shared keys under the real scheduler, followed by reads of everything, a drain and a "
             "collection: results and final state must equal ONE sequential order of the group in the model (linearizability with the "
             "model as specification, all permutations tried); panics and operations that do not return are violations",
        group_sizes=sizes, linearized=orders, unmatched=unmatched, witnesses_reproduced=reproduced,
        traces_validated_against_impl=len(cases) + len(wit),
        samples=[dict(case=cases[0].split("\n"), impl=impl[0])],
        refuted_theorems=["C06_read_atomic_refuted_orig (repaired)", "C06_keys_atomic_refuted (known finding D11b)"], partial_theorems=["C06_read_linearizable_partial", "C06_keys_linearizable_partial"], proof_ok=proof_ok)
    LS.conclude(rep, sk, 'strictly increasing acquisition order and one critical section per operation: C06_acquisitions_ordered, C06_one_critical_section')
    rep.assumptions = ["a critical section under a Go mutex is one atomic step (C06_atomic_steps_linearize is about sequences of such steps); "
                       "interleavings inside a step, RWMutex writer preference and torn reads of unprotected memory (C15) are outside the model",
                       "the lock sequences in fsdb_lock_sequences are read from the source, not extracted from it",
                       "un-paused concurrency is scheduled by the Go runtime (support); only the scripted witness is deterministic"]


def replay(rep, path):
    p = json.load(open(path))
    fsdbh = C.ensure_harness()
    o = H.run_sharded(fsdbh, "hist", [p["case"]], shards=1)[0]
    print(p["case"]); print(o)
    return 0
