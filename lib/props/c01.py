"""C01 — key-value round trip (autocommit histories, all write and read forms, boundary content lengths)."""
from lib import histgen as G
from lib import histprops as P


def gen(rng, tier):
    n = 2000 if tier == "quick" else 40000
    return [G.gen_history(rng, "a%d" % i, profile="autocommit", reopen_p=0.0) for i in range(n)]


def run(rep):
    P.run_hist_property(
        rep, "C01", gen, corpus_file="c01.txt", oracle="kv",
        rule="seeded autocommit histories (10-120 ops) over 1-5 keys from 4 key pools (prefix-related, multi-byte UTF-8, "
             "64-byte keys), Set / SetReader(chunked reader) / Create+Write*+Close with write splits, Get / GetReader, "
             "content lengths incl. 0, 1, 2047-2049, 32767-32769, 65536-65537, empty-key Sets, gc/drain sprinkled; "
             "compared: content identity (length + SHA-256 prefix) of every read, error class, sorted key lists; "
             "non-trivial = a Get of a key after a write of that key; distinct by hash of the operations; oracle = the "
             "extracted key-value map machine (kvrun) evaluated on the implementation's own outputs")
    rep.assumptions = ["content bytes are compared by length and SHA-256; the byte-level copy loop is exercised with all write "
                       "forms but modelled as an atomic value at this layer",
                       "keys are numbered order-preservingly; key 0 is the empty key"]


def replay(rep, path):
    return P.replay_hist(rep, path, oracle="kv")
