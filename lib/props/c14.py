"""C14 — at quiescence the storage roots hold exactly one content file per readable key."""
from lib import common as C
from lib import histgen as G
from lib import histprops as P


def gen(rng, tier):
    n = 1200 if tier == "quick" else 25000
    cases = []
    for i in range(n):
        c = G.gen_history(rng, "q%d" % i, profile=rng.choice(["mixed", "conflict", "mixed", "autocommit"]),
                          probe_p=0.05, gc_p=0.03, nkeys=rng.randint(1, 5), reopen_p=0.0)
        ls = c.split("\n")[:-1]
        # end every transaction that is still open, then reach quiescence
        opened, ended = [], set()
        n_h = 0
        for l in ls:
            t = l.split()
            if t[0] == "begin":
                n_h += 1
                opened.append(n_h)
            elif t[0] in ("commit", "rollback"):
                ended.add(int(t[1]))
        for h in opened:
            if h not in ended:
                ls.append("%s %d" % (rng.choice(["commit", "rollback"]), h))
        nk = len(ls[1].split()) - 1
        probe = ["keys 0"] + ["get 0 %d g" % k for k in range(1, nk + 1)]
        ls += ["drain", "gc", "disk"] + probe
        if rng.random() < 0.5:
            ls += ["reopen", "gc", "disk"] + probe
        ls.append("end")
        if i % 2 == 1 and "ctx=req" not in ls[0]:
            # request-scoped contexts: every call gets a context that is cancelled as soon as it has returned
            ls[0] += " ctx=req"
        cases.append("\n".join(ls))
    return cases


def nontrivial(case):
    ls = case.split("\n")
    return sum(1 for l in ls if l.startswith("set")) >= 3 and any(l.startswith(("commit", "rollback", "del")) for l in ls)


def run(rep):
    st, cases = P.run_hist_property(
        rep, "C14", gen, corpus_file="c14.txt", nontrivial=nontrivial,
        rule="seeded fault-free histories (overwrites, deletes, rollbacks, conflict-aborted commits, several writes per key inside a "
             "transaction), then every open transaction is ended, the pool is drained (counted, not slept for), one collection pass, "
             "and the storage roots are walked: every regular file's length+SHA-256; then GetKeys and Get of every key; in half of "
             "the cases again after Close/Open + collection; compared with the model's content store and the abstract machine's "
             "committed values; every second history passes request-scoped contexts (cancelled when the call returns), as a gRPC or HTTP "
             "handler would; non-trivial = >= 3 writes and a commit/rollback/delete")
    # the property itself on the implementation's own observations: files on disk == values Get returns
    bad = 0
    for c, o in zip(cases, st.impl):
        ops = [l for l in c.split("\n") if not l.startswith("keytab")]
        i = 0
        while i < len(ops):
            if ops[i] == "disk":
                disk = sorted(o[i].split()[3:]) if o[i].startswith("disk") else None
                other = o[i].split()[1] if o[i].startswith("disk") else "?"
                vals = []
                j = i + 2
                while j < len(ops) and ops[j].startswith("get 0"):
                    if o[j].startswith("val "):
                        vals.append(o[j].split()[1])
                    j += 1
                if disk is None or disk != sorted(vals) or other != "other=0":
                    bad += 1
                    if bad <= 3:
                        rep.violation(dict(kind="oracle", what="files under the storage roots differ from the values Get returns at quiescence",
                                           case=c, disk=o[i], readable=sorted(vals)))
                i = j
            else:
                i += 1
    rep.coverage["quiescence_points_checked"] = sum(c.count("\ndisk") for c in cases)
    rep.assumptions = ["fault-free operation"]


def replay(rep, path):
    return P.replay_hist(rep, path)
