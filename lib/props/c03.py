"""C03 — commit all-or-nothing, conflict exactly on write-write conflict."""
import shutil
import tempfile

from lib import common as C
from lib import histgen as G
from lib import histprops as P


def gen(rng, tier):
    n = 2000 if tier == "quick" else 40000
    return [G.gen_history(rng, "x%d" % i, profile="conflict", probe_p=0.1, gc_p=0.04, nkeys=rng.randint(1, 3))
            for i in range(n)]


def nontrivial(case):
    ls = case.split("\n")
    return sum(1 for l in ls if l.startswith("commit")) >= 1 and sum(1 for l in ls if l.startswith("begin")) >= 2


def run(rep):
    st, cases = P.run_hist_property(
        rep, "C03", gen, corpus_file="c03.txt", nontrivial=nontrivial,
        rule="seeded sequential histories biased to conflicts: 1-3 keys, mostly RR/SER transactions with overlapping write "
             "sets, several writes per key, delete-vs-set conflicts, conflicts caused by autocommit writes, commits after the "
             "conflicting transaction rolled back; after every Commit/Rollback an autocommit probe of all keys + GetKeys; "
             "Commit/Rollback error classes compared; non-trivial = >= 2 transactions and a commit")
    outcomes = {}
    for c, o in zip(cases, st.impl):
        ops = [l for l in c.split("\n") if not l.startswith("keytab")]
        for l, r in zip(ops, o):
            if l.startswith("commit"):
                outcomes[r] = outcomes.get(r, 0) + 1
    rep.coverage["commit_outcomes"] = outcomes
    rep.assumptions = ["sequential commits (concurrent commits: C07)"]
    commit_is_one_kv_transaction(rep)


def commit_is_one_kv_transaction(rep):
    """all-or-nothing below the in-memory lists: the version records of a commit are re-tagged in ONE key-value transaction
    (Durable.v models a commit as one atomic change of the record set; appendix A.2: a successful commit = [kv.txn] followed
    by cleaning triples, a failed one writes no version record).  Observed through the mutation events of the real code;
    when the events differ, a crash between the separate writes is searched for as the concrete failing input."""
    from lib.props import c04
    fsdbh = C.ensure_harness()
    rng = C.rng_for(rep.seed, "c03-kv")
    checked, bad = 0, 0
    for w in range(6 if rep.tier == "quick" else 40):
        nkeys = rng.randint(2, 5)
        keytab = "keytab " + " ".join(("c%d" % k).encode().hex() for k in range(1, nkeys + 1))
        lvl = rng.choice(["RU", "RC", "RR", "SER"])
        ops = ["set 0 %d %d 3 s" % (k, k) for k in range(1, nkeys + 1)] + ["begin " + lvl]
        wk = rng.sample(range(1, nkeys + 1), rng.randint(2, nkeys))
        v = 10
        for k in wk:
            v += 1
            ops.append("del 1 %d" % k if rng.random() < 0.25 else "set 1 %d %d 4 s" % (k, v))
        conflict = lvl in ("RR", "SER") and rng.random() < 0.4
        if conflict:
            ops.append("set 0 %d 99 2 s" % wk[0])
        ops.append("commit 1")
        base = tempfile.mkdtemp(prefix="verif-c03-")
        try:
            rc, out, err = c04.run_child(fsdbh, keytab, ops, base, 0)
        finally:
            shutil.rmtree(base, ignore_errors=True)
        acks = [l[4:] for l in out if l.startswith("ACK ")]
        if rc != 0 or len(acks) != len(ops):
            raise C.CheckBroken("C03 commit workload did not run: rc=%s %s %s" % (rc, out[-3:], err[-300:]))
        res, evs = [x.strip() for x in acks[-1].split("|", 1)]
        evs = evs.split()
        checked += 1
        want_ok = not conflict
        problems = []
        if (res == "ok") != want_ok:
            continue                       # the outcome itself is the business of the history comparison above
        if res == "ok" and (evs.count("kv.txn") != 1 or evs[0] != "kv.txn" or "kv.set:file" in evs):
            problems.append("a successful commit of %d keys is not ONE key-value transaction" % len(wk))
        if res != "ok" and ("kv.txn" in evs or "kv.set:file" in evs):
            problems.append("a failed commit wrote version records")
        if not problems:
            continue
        bad += 1
        if bad > 2:
            continue
        # concrete input: die between the separate writes, reopen, compare with the two allowed states
        nev_before = sum(len(a.split("|", 1)[1].split()) for a in acks[:-1])
        found = None
        for n in range(nev_before + 1, nev_before + len(evs) + 1):
            r = c04.crash_run(fsdbh, keytab, ops, nkeys, n)
            if not r.get("crashed"):
                continue
            before = c04.spec_views(keytab, ops[:-1], nkeys)[0]
            after = c04.spec_views(keytab, ops, nkeys)[0]
            if r["obs"] not in (before, after):
                found = dict(crash_before_mutation=n, at=r["at"], observed=r["obs"], allowed=[before, after])
                break
        if found:
            rep.violation(dict(kind="oracle", what="commit is not all-or-nothing: %s; a crash between the writes leaves part of the "
                               "transaction committed after reopening" % problems[0], workload=ops, keytab=keytab, events=evs, **found))
        else:
            rep.violation(dict(kind="correspondence", what=problems[0] + " (model: Durable.v, one atomic change of the record set)",
                               correspondence="persistent mutation events of Commit vs DESIGN appendix A.2", workload=ops,
                               keytab=keytab, events=evs, theorem="C03 commit atomicity rests on Durable.v's atomic commit step"),
                          no_input=True)
    rep.coverage["commit_kv_transactions"] = dict(commits_observed=checked, not_one_transaction=bad,
                                                  rule="2-5 keys, a transaction at a random level writing/deleting 2..n of them, 40% "
                                                       "conflicting at RR/SER; mutation events of Commit: [kv.txn] + cleaning triples")


def replay(rep, path):
    import json
    p = json.load(open(path))
    if "workload" in p:
        from lib.props import c04
        fsdbh = C.ensure_harness()
        C.ensure_driver()
        nkeys = len(p["keytab"].split()) - 1
        base = tempfile.mkdtemp(prefix="verif-c03-")
        try:
            rc, out, err = c04.run_child(fsdbh, p["keytab"], p["workload"], base, 0)
        finally:
            shutil.rmtree(base, ignore_errors=True)
        acks = [l[4:] for l in out if l.startswith("ACK ")]
        print("workload:", p["workload"])
        print("commit  :", acks[-1] if acks else out)
        res, evs = [x.strip() for x in acks[-1].split("|", 1)]
        bad = (res == "ok" and (evs.split().count("kv.txn") != 1 or "kv.set:file" in evs.split())) or (res != "ok" and "kv.txn" in evs)
        if "crash_before_mutation" in p:
            r = c04.crash_run(fsdbh, p["keytab"], p["workload"], nkeys, p["crash_before_mutation"])
            print("crash before mutation %d -> after reopening: %s" % (p["crash_before_mutation"], r.get("obs")))
            print("allowed:", p["allowed"])
            bad = bad or (r.get("crashed") and r["obs"] not in p["allowed"])
        return 1 if bad else 0
    return P.replay_hist(rep, path)
