"""C03 — commit all-or-nothing, conflict exactly on write-write conflict."""
from lib import histgen as G
from lib import histprops as P


def gen(rng, tier):
    n = 2000 if tier == "quick" else 40000
    return [G.gen_history(rng, "x%d" % i, profile="conflict", probe_p=0.1, gc_p=0.04, nkeys=rng.randint(1, 3))
            for i in range(n)]


def nontrivial(case):
    ls = case.split("\n")
    return sum(1 for l in ls if l.startswith("commit")) >= 1 and sum(1 for l in ls if l.startswith("begin")) >= 2


def run(rep):
    st, cases = P.run_hist_property(
        rep, "C03", gen, corpus_file="c03.txt", nontrivial=nontrivial,
        rule="seeded sequential histories biased to conflicts: 1-3 keys, mostly RR/SER transactions with overlapping write "
             "sets, several writes per key, delete-vs-set conflicts, conflicts caused by autocommit writes, commits after the "
             "conflicting transaction rolled back; after every Commit/Rollback an autocommit probe of all keys + GetKeys; "
             "Commit/Rollback error classes compared; non-trivial = >= 2 transactions and a commit")
    outcomes = {}
    for c, o in zip(cases, st.impl):
        ops = [l for l in c.split("\n") if not l.startswith("keytab")]
        for l, r in zip(ops, o):
            if l.startswith("commit"):
                outcomes[r] = outcomes.get(r, 0) + 1
    rep.coverage["commit_outcomes"] = outcomes
    rep.assumptions = ["sequential commits (concurrent commits: C07)"]


def replay(rep, path):
    return P.replay_hist(rep, path)
