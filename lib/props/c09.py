"""C09 — garbage collection / cleanup transparent: GC inserted at every position of base histories."""
import re

from lib import histgen as G
from lib import histprops as P


def variants(case, rng, tier):
    head = case.split("\n")[:2]
    ops = case.split("\n")[2:-1]
    ops = [o for o in ops if o not in ("gc", "drain")]
    cid = head[0].split()[1]
    out = []
    positions = range(len(ops) + 1)
    for p in positions:
        new = ops[:p] + ["gc"] + (["drain"] if rng.random() < 0.3 else []) + ops[p:]
        out.append("\n".join([head[0].replace(cid, "%sg%d" % (cid, p), 1), head[1]] + new + ["end"]))
    # gc after every step
    every = []
    for o in ops:
        every += [o, "gc"]
    out.append("\n".join([head[0].replace(cid, cid + "gall", 1), head[1]] + every + ["end"]))
    out.append("\n".join([head[0].replace(cid, cid + "base", 1), head[1]] + ops + ["end"]))
    return out


def gen(rng, tier):
    nbase = 24 if tier == "quick" else 400
    cases = []
    for i in range(nbase):
        base = G.gen_history(rng, "b%d" % i, profile=rng.choice(["mixed", "conflict"]), probe_p=0.25, gc_p=0.0,
                             nops=rng.choice([10, 20, 30]), nkeys=rng.randint(1, 3))
        cases += variants(base, rng, tier)
    return cases


def nontrivial(case):
    ls = case.split("\n")
    return any(l == "gc" for l in ls) and any(l.startswith("begin RR") or l.startswith("begin SER") for l in ls) \
        and any(l.startswith("get") for l in ls)


def run(rep):
    st, cases = P.run_hist_property(
        rep, "C09", gen, corpus_file="c09.txt", nontrivial=nontrivial,
        rule="base histories (10-30 ops + probes, snapshot transactions of different ages open) and, for each, one variant "
             "per position with the collector (and sometimes a drain) inserted there, one variant with the collector after "
             "every step, and the collector-free base; all reads of all actors compared with the abstract machine, for which "
             "gc/drain are the identity, so every variant must read as the base does; non-trivial = contains gc, a snapshot "
             "transaction and a read")
    # the property itself on the implementation: outputs at non-gc positions identical across the variants of one base
    groups = {}
    for c, o in zip(cases, st.impl):
        cid = c.split("\n")[0].split()[1]
        mm = re.match(r"^(b\d+)(g\d+|gall|base)$", cid)
        if not mm:
            continue            # corpus cases are not variants of a generated base
        base = mm.group(1)
        ops = [l for l in c.split("\n") if not l.startswith("keytab")]
        outs = [r for l, r in zip(ops, o) if l not in ("gc", "drain")]
        groups.setdefault(base, []).append((c, outs[1:]))
    bad = 0
    for base, items in groups.items():
        ref = items[-1][1]
        for c, outs in items:
            if outs != ref and bad < 3:
                bad += 1
                rep.violation(dict(kind="oracle", what="a collection pass changed the result of a later operation", case=c,
                                   outputs=outs, outputs_without_gc=ref))
    rep.coverage["gc_variant_groups"] = len(groups)
    # scripted cases (oracle on the implementation's own answers, not modelled): a reader obtained BEFORE an overwrite and
    # a collection pass still delivers the content it was opened on (lazy1, lazy2); a snapshot begun while a pass is
    # parked after choosing its horizon (pause point gc.afterOldest) keeps reading its version (hz1)
    from lib import common as C
    sc = P.corpus("c09_scripted.txt")
    sbad = 0
    for c in sc:
        o = C.run_lines(C.FSDBH, "hist", c.split("\n"), timeout=120)
        ops = [l for l in c.split("\n") if not l.startswith("keytab")]
        res = list(zip(ops, o))
        cid = ops[0].split()[1]
        if any(r in ("AWAIT-TIMEOUT", "WAIT-TIMEOUT") for r in o):
            raise C.CheckBroken("scripted collector schedule did not run as scripted: %s" % o)
        gets = [r for l, r in res if l.startswith("get ")]
        if cid.startswith("lazy"):
            want = gets[0]
            got = next(r for l, r in res if l.startswith("readr"))
        else:
            want, got = gets[0], gets[1]
        if got != want or not want.startswith("val "):
            sbad += 1
            rep.violation(dict(kind="oracle", what="a collection pass changed what a reader that was already open / a snapshot that had "
                               "already begun reads: %s instead of %s" % (got, want), case=c, impl=o))
    rep.coverage["scripted_collector_cases"] = dict(cases=len(sc), violations=sbad)
    rep.assumptions = ["collector invoked synchronously between operations (concurrent GC: C06/C08)"]


def replay(rep, path):
    return P.replay_hist(rep, path)
