"""C02 — isolation levels (sequential interleavings of transactions of all levels, GC anywhere)."""
from lib import histgen as G
from lib import histprops as P


def gen(rng, tier):
    n = 2000 if tier == "quick" else 40000
    return [G.gen_history(rng, "m%d" % i, profile="mixed", probe_p=0.2, gc_p=0.06) for i in range(n)]


def nontrivial(case):
    ls = case.split("\n")
    levels = {l.split()[1] for l in ls if l.startswith("begin")}
    return len(levels) >= 2 and any(l.startswith("get") and not l.startswith("get 0") for l in ls)


def run(rep):
    P.run_hist_property(
        rep, "C02", gen, corpus_file="c02.txt", nontrivial=nontrivial,
        rule="seeded sequential histories (10-120 ops + probes): up to 6 simultaneously open transactions of mixed levels "
             "(RU/RC/RR/SER/default), autocommit callers, 1-5 keys, Set/Delete/Get/GetKeys/Commit/Rollback, gc and drain at "
             "random positions, 'probe all' (Get of every key and GetKeys through every open handle and autocommit) after "
             "20% of the steps; non-trivial = >= 2 different levels open and reads through transactions; oracle = extracted "
             "abstract machine (arun) on the implementation's own outputs")
    rep.assumptions = ["single client goroutine (sequential histories); concurrency is C06-C08",
                       "no write through an ended handle (that is C13) and no reopen (C05)"]


def replay(rep, path):
    return P.replay_hist(rep, path)
