"""C13 — a finished transaction is finished (operations through ended / unknown handles)."""
from lib import common as C
from lib import histgen as G
from lib import histprops as P


def gen(rng, tier):
    n = 1500 if tier == "quick" else 40000
    cases = []
    for i in range(n):
        cases.append(G.gen_history(rng, "l%d" % i, profile="mixed", late_p=rng.choice([0.15, 0.3, 0.5]), probe_p=0.15,
                                   gc_p=0.04, nkeys=rng.randint(1, 3)))
    return cases


def nontrivial(case):
    ended, seen = set(), False
    for l in case.split("\n")[2:-1]:
        t = l.split()
        if t[0] in ("commit", "rollback"):
            if t[1] in ended:
                seen = True
            ended.add(t[1])
        elif t[0] in ("get", "keys", "set", "del") and t[1] in ended:
            seen = True
    return seen


def run(rep):
    st, cases = P.run_hist_property(
        rep, "C13", gen, corpus_file="c13.txt", known_d7=True, nontrivial=nontrivial,
        rule="seeded sequential histories in which, with probability 0.15-0.5 per step, an operation (Get, GetKeys, Set, Delete, "
             "Commit, Rollback) is issued through a handle that already ended (by Commit, by Rollback, by a failed Commit), with "
             "other transactions of all four levels (incl. ReadUncommitted) open and probing all keys after 70% of the late "
             "operations; non-trivial = contains an operation through an ended handle; every history is compared with the extracted "
             "client-layer model (Client.cstep) and with the abstract machine, step by step")
    for f in C.known_findings("C13"):
        if f.get("status") == "open" and st.d7_seen > 0:
            rep.known_finding("%s: %s (reproduced in %d histories of this run)" % (f["id"], f["what"], st.d7_seen))
    rep.coverage["late_write_histories"] = st.d7_seen
    rep.coverage["refuted_theorems"] = ["C13_late_write_refuted_orig (the code before the repair of D7)"]
    rep.assumptions = ["unknown (never issued) transaction ids can only be supplied over gRPC metadata; the inline client has no such handle"]


def replay(rep, path):
    return P.replay_hist(rep, path)
