"""C18 — snapshot lookup / collection on one version list."""
import itertools
import json
import os

from lib import common as C

DOMAIN = list(range(1, 13))          # 12-element sequence domain
PROBES = list(range(0, 14))          # every probe point 0..13
BOUND = [0, 1, 2, 254, 255, 256, 257, 65535, 65536, 2**31 - 1, 2**31, 2**32 - 1, 2**32, 2**32 + 1,
         2**63 - 1, 2**63, 2**63 + 1, 2**64 - 2, 2**64 - 1]


def exhaustive_cases():
    """all subsets x {lookups at every probe; collect at every horizon then lookups at every probe}"""
    cases = []
    lk = " ".join("l%d" % s for s in PROBES)
    i = 0
    for r in range(0, len(DOMAIN) + 1):
        for sub in itertools.combinations(DOMAIN, r):
            push = " ".join("p%d" % s for s in sub)
            for h in PROBES:
                cases.append(("x%d %s %s t c%d %s t" % (i, push, lk, h, lk)).replace("  ", " "))
                i += 1
    return cases


def random_case(rng, i, big):
    """interleaving of append (increasing numbers), pop-front, pop-back, collect, lookups"""
    toks = []
    cur = 0
    pushed = []
    n = rng.choice([5, 20, 60, 200]) if not big else rng.choice([1000, 3000, 5000])
    wide = rng.random() < 0.5
    for _ in range(n):
        x = rng.random()
        if x < (0.55 if not big else 0.9) or not pushed:
            if wide:
                room = (2**64 - 1) - cur
                if room <= 0:
                    continue
                step = rng.choice([1, 1, 2, rng.randrange(1, 1 << rng.randrange(1, 62))])
                cur = min(2**64 - 1, cur + min(step, max(1, room // max(1, (n // 4)))))
            else:
                cur += rng.choice([1, 1, 2, 3, 7])
            if pushed and cur <= pushed[-1]:
                continue
            pushed.append(cur)
            toks.append("p%d" % cur)
        elif x < 0.65:
            toks.append("f")
        elif x < 0.72:
            toks.append("b")
        elif x < 0.82:
            toks.append("c%d" % pick_probe(rng, pushed))
        elif x < 0.97:
            toks.append("l%d" % pick_probe(rng, pushed))
        else:
            toks.append("t")
    for _ in range(6):
        toks.append("l%d" % pick_probe(rng, pushed))
    toks.append("c%d" % pick_probe(rng, pushed))
    for _ in range(6):
        toks.append("l%d" % pick_probe(rng, pushed))
    toks.append("t")
    return "r%d %s" % (i, " ".join(toks))


def nosearch_case(rng, i):
    """the same interleavings of append / pop-front / pop-back / latest on a list WITHOUT the search array (the
    configuration of the all-store); first token N (stripped before the case goes to the model)"""
    toks, cur, n = ["N"], 0, rng.choice([3, 6, 12, 40])
    for _ in range(n):
        x = rng.random()
        if x < 0.5:
            cur += rng.choice([1, 1, 2, 5])
            toks.append("p%d" % cur)
        elif x < 0.65:
            toks.append("f")
        elif x < 0.8:
            toks.append("b")
        else:
            toks.append("t")
    toks += ["t", "b", "t", "f", "t"]
    return "n%d %s" % (i, " ".join(toks))


def pick_probe(rng, pushed):
    x = rng.random()
    if pushed and x < 0.6:
        b = rng.choice(pushed)
        return max(0, min(2**64 - 1, b + rng.choice([-1, 0, 0, 1])))
    if x < 0.8:
        return rng.choice(BOUND)
    return rng.randrange(0, 2**64)


def nontrivial(case):
    toks = case.split()[1:]
    npush = sum(1 for t in toks if t[0] == "p")
    return npush >= 2 and any(t[0] == "l" for t in toks) and any(t[0] == "c" for t in toks)


def corpus_cases():
    p = os.path.join(C.CORPUS, "c18.txt")
    if not os.path.exists(p):
        return []
    return [l.strip() for l in open(p) if l.strip() and not l.startswith("#")]


def coq_term(case, expected):
    def tok(t):
        a = t[1:]
        return {"p": "TPush %s" % a, "f": "TPopFront", "b": "TPopBack", "c": "TCollect %s" % a,
                "l": "TLookup %s" % a, "t": "TLatest"}[t[0]]

    def res(r):
        if r == "-":
            return "RUnit"
        if r == "n":
            return "RNone"
        if r == "FUEL":
            return "RFuel"
        if r.startswith("["):
            inner = r[1:-1]
            return "RList [%s]" % "; ".join(inner.split(",")) if inner else "RList []"
        return "RSome %s" % r
    toks = case.split()[1:]
    return "([%s], [%s])" % ("; ".join(tok(t) for t in toks), "; ".join(res(r) for r in expected.split()[1:]))


def vm_crosscheck(cases, model_out):
    """evaluate the same model inside coqc (vm_compute) and compare with the extracted run"""
    import tempfile, shutil
    d = tempfile.mkdtemp(prefix="verif-c18-")
    try:
        body = ";\n  ".join(coq_term(c, o) for c, o in zip(cases, model_out))
        src = ("From Coq Require Import List NArith.\nFrom FsDb Require Import VListRun.\n"
               "Import ListNotations.\nOpen Scope N_scope.\n"
               "Definition cases : list (list vtok * list vres) := [\n  %s\n].\n"
               "Definition M := Eval vm_compute in vmismatches cases.\nPrint M.\n" % body)
        with open(os.path.join(d, "cases.v"), "w") as f:
            f.write(src)
        rc, out = C.sh("timeout 600 coqc -Q %s FsDb cases.v" % C.COQ, cwd=d, timeout=650)
        if rc != 0:
            raise C.CheckBroken("vm_compute cross-check failed to compile:\n" + out[-3000:])
        flat = " ".join(out.split())
        if "M = [] : list nat" not in flat:
            raise C.CheckBroken("extracted model and vm_compute disagree (TCB alarm): " + flat[-500:])
        return len(cases)
    finally:
        shutil.rmtree(d, ignore_errors=True)


def first_diff(a, b):
    ta, tb = a.split(), b.split()
    for i in range(max(len(ta), len(tb))):
        if i >= len(ta) or i >= len(tb) or ta[i] != tb[i]:
            return i
    return None


def run_three(fsdbh, lines):
    impl = C.run_lines(fsdbh, "vlist", lines)
    # the token N (list without the search array) is a configuration of the implementation only: same list semantics
    mlines = [" ".join(t for k, t in enumerate(l.split()) if not (k == 1 and t == "N")) for l in lines]
    model = C.run_lines(C.DRIVER, "vlist", mlines)
    spec = C.run_lines(C.DRIVER, "vlist-spec", mlines)
    if not (len(impl) == len(model) == len(spec) == len(lines)):
        raise C.CheckBroken("output length mismatch %d/%d/%d/%d" % (len(impl), len(model), len(spec), len(lines)))
    return impl, model, spec


def investigate(rep, fsdbh, case, impl_line, model_line):
    """impl != model on this case: shrink, then ask the spec oracle for a concrete failing input"""
    cid, toks = case.split()[0], case.split()[1:]

    def mismatch(ts):
        l = [cid + " " + " ".join(ts)]
        i, m, _ = run_three(fsdbh, l)
        return i[0] != m[0]
    small = C.ddmin(toks, mismatch)
    line = cid + " " + " ".join(small)
    i, m, s = run_three(fsdbh, [line])
    payload = dict(kind="correspondence", correspondence="fsdbh vlist (usecase/core + model/core) vs coq/VList.v (vrun)",
                   case=line, impl=i[0], model=m[0], spec=s[0], original_case=case if len(case) < 4000 else case[:4000] + "...")
    if i[0] != s[0]:
        k = first_diff(i[0], s[0])
        payload["failing_step"] = small[k - 1] if k and k - 1 < len(small) else None
        payload["what"] = "implementation differs from the C18 specification (linear-scan lookup / successor<=h collection)"
        rep.violation(payload)
    else:
        rep.violation(payload, no_input=True)


def run(rep):
    rng = C.rng_for(rep.seed, "c18")
    proof_ok = C.proof_step(rep, "C18")
    C.ensure_driver()
    fsdbh = C.ensure_harness()
    cases = corpus_cases()
    ncorpus = len(cases)
    ex = exhaustive_cases()
    cases += ex
    nrand = 200 if rep.tier == "quick" else 2000
    nbig = 4 if rep.tier == "quick" else 40
    rnd = [random_case(rng, i, False) for i in range(nrand)] + [random_case(rng, nrand + i, True) for i in range(nbig)]
    cases += rnd
    nns = 150 if rep.tier == "quick" else 2000
    cases += [nosearch_case(rng, i) for i in range(nns)]
    impl, model, spec = run_three(fsdbh, cases)
    bad = [k for k in range(len(cases)) if impl[k] != model[k]]
    tcb = [k for k in range(len(cases)) if model[k] != spec[k]]
    if tcb:
        raise C.CheckBroken("extracted model and extracted spec disagree on a sorted-input case "
                            "(contradicts C18 theorems; TCB alarm): " + cases[tcb[0]][:300])
    for k in bad[:3]:
        investigate(rep, fsdbh, cases[k], impl[k], model[k])
    # in-Coq evaluation of a seeded sample
    sample_idx = sorted(rng.sample(range(len(cases) - nbig - nns), 250)) + list(range(ncorpus))
    vm = vm_crosscheck([cases[k] for k in sample_idx], [model[k] for k in sample_idx])
    distinct = len({C.case_hash(" ".join(c.split()[1:])) for c in cases if nontrivial(c)})
    steps = sum(len(c.split()) - 1 for c in cases)
    rep.coverage.update(
        evaluations=len(cases), steps_compared=steps, distinct_nontrivial=distinct,
        rule="cases = corpus + EXHAUSTIVE(all 4096 subsets of {1..12} x 14 horizons, each with lookups at all 14 probes "
             "before and after the collection) + seeded random interleavings of push/pop-front/pop-back/collect/lookup "
             "(numbers up to 2^64-1, lists up to 5000); non-trivial = >=2 versions, a lookup and a collection; distinct by token hash",
        exhaustive=True, exhaustive_part="all subsets of a 12-element domain x all horizons x all probes (%d cases)" % len(ex),
        random_cases=len(rnd), corpus_cases=ncorpus,
        traces_validated_against_impl=len(cases), impl_vs_model_mismatches=len(bad),
        vm_compute_crosschecked=vm,
        samples=[dict(case=cases[k][:300], impl=impl[k][:300]) for k in (0, len(ex) // 2, len(cases) - nbig - 1)],
        proof_ok=proof_ok)
    rep.assumptions = ["sequence numbers are >= 1 (sequence.Next never returns 0) and < 2^64",
                       "pushes carry increasing numbers (guaranteed in fs_db by drawing under the list's lock; Core invariant)"]


def replay(rep, path):
    p = json.load(open(path))
    fsdbh = C.ensure_harness()
    C.ensure_driver()
    i, m, s = run_three(fsdbh, [p["case"]])
    print("case :", p["case"]); print("impl :", i[0]); print("model:", m[0]); print("spec :", s[0])
    return 0 if i[0] == s[0] else 1
