"""C12 — a created file stores the concatenation of its writes and Close always returns.

Tie between coq/RW.v and internal/utils/async/read_writer.go by *schedule replay*:
the extracted model enumerates complete schedules (lists of thread choices), each is
replayed on the real read-writer through the pause points (harness/sched.go), and the
sequence of pause points reached plus the final outcome must equal the model's
prediction.  Case-line format (shared by `driver rw` and `fsdbh rw`):

    <id> <var> <B> <fail> <writes> <sched>

var = f (repaired code; the model this check compares with) | o | l | c (other variants,
used by the recorded witnesses), B = read-buffer size of the storing side, fail = - | k,
writes = - | n1,n2,..., sched = string over W,R (lower case: the model expects the thread
to block at that position)."""
import hashlib
import itertools
import json
import os
import re
import struct
import time

from lib import common as C

WITNESSES = [("D2", os.path.join(C.CORPUS, "c12_d2.txt")), ("D3", os.path.join(C.CORPUS, "c12_d3.txt"))]
SIZES = [0, 1, 2]
BS = [1, 2]


# ---------------------------------------------------------------------------
# helpers

def pattern_hex(sizes):
    n = sum(sizes)
    return "".join("%02x" % (97 + j % 26) for j in range(n))


def parse_sizes(w):
    return [] if w == "-" else [int(x) for x in w.split(",")]


def split_line(line):
    """-> (id, events, fields dict)"""
    head, _, tail = line.partition(" ; ")
    h = head.split()
    f = {}
    m = re.search(r"tail=(DEADLOCK\[.*?\]|\S+)", tail)
    if m:
        f["tail"] = m.group(1)
        tail = tail[:m.start()] + tail[m.end():]
    for kv in tail.split():
        k, _, v = kv.partition("=")
        f[k] = v
    return h[0], h[1:], f


def annotate(case, model_line):
    """lower-case the schedule letters at which the model predicts 'blocked'"""
    t = case.split()
    _, evs, _ = split_line(model_line)
    sc = t[5]
    if sc != "-":
        evs = evs[2:]
        if len(evs) != len(sc):
            raise C.CheckBroken("model trace length differs from schedule: %s / %s" % (case, model_line))
        sc = "".join(ch.lower() if e.endswith(":blocked") else ch.upper() for ch, e in zip(sc, evs))
    t[5] = sc
    return " ".join(t)


def as_fixed(case):
    t = case.split()
    t[1] = "f"
    return " ".join(t)


def run_model(cases):
    return C.run_lines(C.DRIVER, "rw", cases, timeout=900) if cases else []


def run_impl(fsdbh, cases, timeout=1800):
    return C.run_lines(fsdbh, "rw", cases, timeout=timeout) if cases else []


def corresponds(model_line, impl_line):
    """the correspondence: same pause-point trace; same outcome when the model run is complete;
    a stuck model state must show up as a deadlock"""
    mid, mev, mf = split_line(model_line)
    iid, iev, jf = split_line(impl_line)
    if mev != iev:
        return False
    if mf["end"] == "final":
        return jf.get("end") == "final" and all(mf[k] == jf.get(k) for k in ("close", "w", "pub", "stored"))
    if mf["end"] == "stuck":
        return jf.get("end") == "open" and jf.get("tail", "").startswith("DEADLOCK")
    return True


def oracle(case, impl_line):
    """the property itself, evaluated on the implementation's own outcome.
    Returns None if satisfied, else a description."""
    t = case.split()
    sizes = parse_sizes(t[4])
    fail = t[3]
    _, _, f = split_line(impl_line)
    if f.get("tail", "").startswith("DEADLOCK") or f.get("close") == "none":
        return "Close never returns: " + f.get("tail", "")
    want = pattern_hex(sizes)
    if f["close"] == "ok":
        if f["pub"] == "none":
            return "Close returned nil but nothing was stored"
        if f["pub"] != want:
            return "Close returned nil but the stored content (%d bytes) is not the concatenation of the writes (%d bytes)" % (
                len(f["pub"]) // 2, len(want) // 2)
        if "e" in f["w"]:
            return "a Write returned an error although Close returned nil"
    else:
        if fail == "-":
            return "Close returned an error although the storing side did not fail"
        if f["pub"] != "none":
            return "Close returned an error but content was published"
    if fail == "-" and "e" in f["w"]:
        return "a Write returned an error although the storing side did not fail"
    return None


def nontrivial(case, model_line):
    return " R:blocked" in model_line or "rw.read.afterWake" in model_line


# ---------------------------------------------------------------------------
# generators

def family(tier, rng):
    """enumeration requests for the extracted model: all write lists of up to 3 writes with
    sizes in {0,1,2}, B in {1,2}; eager-normal schedules; one probe."""
    reqs = []
    i = 0
    for k in range(4):
        for ws in itertools.product(SIZES, repeat=k):
            for b in BS:
                w = ",".join(map(str, ws)) if ws else "-"
                reqs.append(("s%d" % i, b, "-", w, k))
                i += 1
    return reqs


def error_family(tier):
    reqs = []
    i = 0
    lists = [(), (1,), (2,), (0, 1), (1, 1), (2, 1)] if tier == "quick" else \
        [ws for k in range(4) for ws in itertools.product(SIZES, repeat=k)]
    for ws in lists:
        for b in BS:
            for fail in range(0, 4):
                w = ",".join(map(str, ws)) if ws else "-"
                reqs.append(("x%d" % i, b, str(fail), w, len(ws)))
                i += 1
    return reqs


def enumerate_schedules(reqs, mode, probes, tag=""):
    lines = ["%s%s f %d %s %s %s %d" % (tag, rid, b, fail, w, mode, probes) for rid, b, fail, w, _ in reqs]
    return C.run_lines(C.DRIVER, "rw-enum", lines, timeout=900)


def content_bytes(v, n):
    out = b""
    ctr = 0
    while len(out) < n:
        out += hashlib.sha256(struct.pack("<QQ", v, ctr)).digest()
        ctr += 1
    return out[:n]


E2E_SIZES = [0, 1, 32767, 32768, 32769]


def e2e_cases(rng, ncases, per):
    """sequential end-to-end histories: Create; Write*; Close; Get (hist.go's `set ... c<sizes>`)"""
    lines, expect, descr = [], [], []
    v = 0
    for c in range(ncases):
        lines += ["case e%d roots=1" % c, "keytab 6b31"]
        expect.append("case e%d" % c)
        descr.append(None)
        for j in range(per):
            v += 1
            k = rng.choice([0, 1, 2, 2, 3, 3, 4, 5])
            parts = [rng.choice(E2E_SIZES) for _ in range(k)]
            if c == 0 and j < 6:
                parts = [[], [0], [0, 0], [0, 1], [1, 0, 1], [0, 32768, 0]][j]
            extra = rng.choice([0, 0, 0, 1, 100, 2049])
            n = sum(parts) + extra
            via = rng.choice(["c", "c", "d"]) + ",".join(map(str, parts))
            lines.append("set 0 1 %d %d %s" % (v, n, via))
            expect.append("ok")
            descr.append(lines[-1])
            lines.append("get 0 1 %s" % rng.choice(["g", "r"]))
            expect.append("val %d:%s" % (n, hashlib.sha256(content_bytes(v, n)).hexdigest()[:12]))
            descr.append(lines[-2] + " ; " + lines[-1])
            if j % 3 == 2:
                # a store that fails (empty key): Write or Close must report an error of the class ErrEmptyKey and the
                # key written before keeps its value
                v += 1
                bad_parts = [rng.choice(E2E_SIZES) for _ in range(rng.choice([0, 1, 2, 3]))]
                lines.append("set 0 0 %d %d %s%s" % (v, sum(bad_parts), rng.choice(["c", "d"]), ",".join(map(str, bad_parts))))
                expect.append("err EmptyKey")
                descr.append(lines[-1])
                lines.append("get 0 1 g")
                expect.append(expect[-2])
                descr.append(lines[-2] + " ; " + lines[-1])
        lines.append("end")
        expect.append("end")
        descr.append(None)
    return lines, expect, descr


def sw_cases(rng, n):
    out = []
    i = 0
    for cs in (1, 2, 3, 4):
        for k in range(4):
            for ws in itertools.product([0, 1, 3, 4, 5, 9], repeat=k):
                if k == 3 and rng.random() > 0.25:
                    continue
                out.append("w%d %d %s" % (i, cs, ",".join(map(str, ws)) if ws else "-"))
                i += 1
    for _ in range(n):
        cs = rng.choice([1, 2, 5, 7, 64, 2048])
        ws = [rng.choice([0, 1, cs - 1, cs, cs + 1, 2 * cs, 3 * cs + 1, rng.randrange(0, 4 * cs + 2)])
              for _ in range(rng.randrange(0, 7))]
        out.append("w%d %d %s" % (i, cs, ",".join(map(str, ws)) if ws else "-"))
        i += 1
    return out


# ---------------------------------------------------------------------------
# in-Coq evaluation (vm_compute) of a sample, against the extracted model's output

POINTS = {"rw.write.enter": "PWriteEnter", "rw.write.beforeSignal": "PWriteBeforeSignal", "rw.close.enter": "PCloseEnter",
          "rw.close.afterStore": "PCloseAfterStore", "rw.close.beforeWait": "PCloseBeforeWait", "rw.read.enter": "PReadEnter",
          "rw.read.beforeWait": "PReadBeforeWait", "rw.read.afterWake": "PReadAfterWake", "sink.eof": "PSinkEof",
          "sink.fail": "PSinkFail"}


def coq_example(k, case, model_line):
    t = case.split()
    lp, lk = {"o": ("false", "false"), "f": ("true", "true"), "l": ("true", "false"), "c": ("false", "true")}[t[1]]
    fail = "None" if t[3] == "-" else "(Some %s)" % t[3]
    sizes = "[" + "; ".join(str(x) for x in parse_sizes(t[4])) + "]"
    sched = "[" + "; ".join(ch.upper() for ch in (t[5] if t[5] != "-" else "")) + "]"
    _, evs, f = split_line(model_line)
    ev = []
    for e in evs:
        if "@" in e:
            th, pt = e.split("@")
            ev.append("(%s, OAt %s)" % (th, POINTS[pt]))
        else:
            th, kind = e.split(":")
            ev.append("(%s, %s)" % (th, "OBlocked" if kind == "blocked" else "OFinished"))
    cres = {"ok": "Some true", "err": "Some false", "none": "None"}[f["close"]]
    wres = "[" + "; ".join("true" if ch == "o" else "false" for ch in (f["w"] if f["w"] != "-" else "")) + "]"
    publen = "None" if f["pub"] == "none" else "Some %d" % (len(f["pub"]) // 2)
    return ("Example ck%d : let p := rw_params %s %s %s %s in let s0 := rw_init (rw_writes %s) in\n"
            "  let r := rw_trace p %s s0 [] in let o := rw_outcome (snd r) in\n"
            "  (rw_initial_obs s0 ++ fst r, rw_final (snd r), rw_stuck p (snd r), fst o, fst (snd o),\n"
            "   match fst (snd (snd o)) with Some c => Some (length c) | None => None end)\n"
            "  = ([%s], %s, %s, %s, %s, %s).\nProof. vm_compute. reflexivity. Qed.\n"
            % (k, lp, lk, t[2], fail, sizes, sched, "; ".join(ev),
               "true" if f["end"] == "final" else "false", "true" if f["end"] == "stuck" else "false", cres, wres, publen))


def vm_crosscheck(pairs):
    import shutil
    import tempfile
    d = tempfile.mkdtemp(prefix="verif-c12-")
    try:
        with open(os.path.join(d, "cases.v"), "w") as fh:
            fh.write("From Coq Require Import List NArith.\nFrom FsDb Require Import Conc RW.\nImport ListNotations.\n")
            for k, (c, m) in enumerate(pairs):
                fh.write(coq_example(k, c, m))
        rc, out = C.sh("timeout 600 coqc -Q %s FsDb cases.v" % C.COQ, cwd=d, timeout=650)
        if rc != 0:
            raise C.CheckBroken("extracted model and vm_compute disagree, or cases.v is ill-formed (TCB alarm):\n" + out[-3000:])
        return len(pairs)
    finally:
        shutil.rmtree(d, ignore_errors=True)


# ---------------------------------------------------------------------------
# failing-input search

def violating_prefixes(fsdbh, cases):
    """For each case try every prefix of its schedule (the controller completes the run by
    itself: remaining threads are released round-robin) and evaluate the property oracle on
    the implementation's own outcome.  Returns {case: (prefix_case, model_line, impl_line, why)}
    for the shortest violating prefix of each case that has one."""
    allp, owner = [], []
    for case in cases:
        t = case.split()
        sc = t[5] if t[5] != "-" else ""
        for n in range(0, len(sc) + 1):
            u = list(t)
            u[0] = "%s.p%d" % (t[0], n)
            u[5] = sc[:n].upper() or "-"
            allp.append(" ".join(u))
            owner.append(case)
    pm = run_model([as_fixed(c) for c in allp])
    pa = [annotate(c, m) for c, m in zip(allp, pm)]
    pi = run_impl(fsdbh, pa)
    res = {}
    for o, c, m, i in zip(owner, pa, pm, pi):
        if o in res:
            continue
        why = oracle(c, i)
        if why:
            res[o] = (c, m, i, why)
    return res


def report_property(rep, origin, found):
    c, m, i, why = found
    t = c.split()
    rep.violation(dict(kind="property", what=why, origin=origin, case=c,
                       writes=t[4], read_buffer=int(t[2]), sink_fails_at=t[3], schedule=t[5],
                       impl=i, model_fixed=m,
                       note="schedule = thread released at each position (W = caller of Write/Close, R = storing "
                            "goroutine; lower case = the model expects it to block there); after its end the controller "
                            "releases the remaining threads round-robin"))


def report_correspondence(rep, origin, case, model_line, impl_line):
    rep.violation(dict(kind="correspondence", correspondence="fsdbh rw (async.readWriter) vs coq/RW.v rw_fixed",
                       what="trace of pause points / outcome differs from the model; no schedule prefix violates the property oracle",
                       origin=origin, case=case, impl=impl_line, model_fixed=model_line), no_input=True)


def sig_of(why):
    return why.split(":")[0][:40]


def order_key(case):
    t = case.split()
    sizes = parse_sizes(t[4])
    return (len(sizes), sum(sizes), len(t[5]), t[5])


# ---------------------------------------------------------------------------

def run(rep):
    rng = C.rng_for(rep.seed, "c12")
    proof_ok = C.proof_step(rep, "C12")
    C.ensure_driver()
    fsdbh = C.ensure_harness()
    quick = rep.tier == "quick"
    t_start = time.time()
    evaluations = 0
    reported = 0

    # (a) recorded witnesses first (the two defects repaired by the fix: commit)
    wit_cases = []
    for did, path in WITNESSES:
        if not os.path.exists(path):
            raise C.CheckBroken("missing corpus witness " + path)
        for l in open(path):
            l = l.strip()
            if l and not l.startswith("#"):
                wit_cases.append((did, l))
    w_model_own = run_model([c for _, c in wit_cases])          # the model variant named in the file
    w_model_fix = run_model([as_fixed(c) for _, c in wit_cases])
    w_ann = [annotate(c, m) for (_, c), m in zip(wit_cases, w_model_fix)]
    w_impl = run_impl(fsdbh, w_ann)
    evaluations += len(w_ann)
    wit_report = []
    for (did, c), mo, mf, a, i in zip(wit_cases, w_model_own, w_model_fix, w_ann, w_impl):
        why = oracle(a, i)
        reproduces = corresponds(mo, i) and c.split()[1] != "f"
        wit_report.append(dict(defect=did, case=c, impl=i, oracle=why or "ok",
                               behaves_like_unrepaired_model=reproduces,
                               trace_equals_repaired_model=corresponds(mf, i)))
        if why:
            reported += 1
            rep.violation(dict(kind="property", what=why, origin="corpus witness of %s (repaired defect is back)" % did,
                               case=a, writes=c.split()[4], schedule=a.split()[5], impl=i, model_fixed=mf,
                               model_unrepaired=mo))
        # no trace comparison here: a witness is a schedule of the *unrepaired* model; under the repaired
        # model it is not eager-normal (it lets W take the mutex while the woken reader is still inside
        # cv.Wait), so its trace on the repaired code depends on who wins that race.  The property
        # oracle does not: on the repaired code it holds for every schedule.

    # (b) every replayable schedule of the model for the small family
    reqs = family(rep.tier, rng)
    n_all = len(enumerate_schedules(reqs, "all", 0))
    base = enumerate_schedules(reqs, "eager", 0)
    probe_reqs = reqs if not quick else [r for r in reqs if r[4] <= 2]
    probed = [c for c in enumerate_schedules(probe_reqs, "eager", 1, "p")]
    base_set = set(" ".join(c.split()[1:]) for c in base)
    probed = [c for c in probed if " ".join(c.split()[1:]) not in base_set]
    n_probed_total = len(probed)
    if quick:
        big = [r for r in reqs if r[4] == 3]
        extra = [c for c in enumerate_schedules(big, "eager", 1, "q") if " ".join(c.split()[1:]) not in base_set]
        n_probed_total += len(extra)
        rng.shuffle(extra)
        probed += extra[:6000]
    err_reqs = error_family(rep.tier)
    errs = enumerate_schedules(err_reqs, "eager", 0)
    cases = base + probed + errs
    model = run_model(cases)
    ann = [annotate(c, m) for c, m in zip(cases, model)]
    impl = run_impl(fsdbh, ann)
    if not (len(impl) == len(model) == len(cases)):
        raise C.CheckBroken("output length mismatch (%d cases, %d model, %d impl)" % (len(cases), len(model), len(impl)))
    evaluations += len(cases)
    bad = [k for k in range(len(cases)) if not corresponds(model[k], impl[k])]
    # the property oracle on every implementation run, whatever the model says
    orc = [k for k in range(len(cases)) if oracle(ann[k], impl[k])]
    # failing-input search: oracle failures first (smallest case per kind), then trace-only
    # mismatches (up to 60 of the smallest) are shrunk by schedule prefix looking for a violating run
    kinds = set()
    cand = []
    for k in sorted(orc, key=lambda k: order_key(ann[k])):
        sg = sig_of(oracle(ann[k], impl[k]))
        if sg not in kinds:
            kinds.add(sg)
            cand.append(k)
    trace_only = sorted(set(bad) - set(orc), key=lambda k: order_key(ann[k]))[:60]
    found = violating_prefixes(fsdbh, [ann[k] for k in cand + trace_only]) if (cand or trace_only) else {}
    fam_kinds = set()
    for k in cand + trace_only:
        fnd = found.get(ann[k])
        if fnd and sig_of(fnd[3]) not in fam_kinds and len(fam_kinds) < 4:
            fam_kinds.add(sig_of(fnd[3]))
            report_property(rep, "schedule family (b)", fnd)
    if (bad or orc) and not fam_kinds:
        k = (trace_only or cand)[0]
        report_correspondence(rep, "schedule family (b)", ann[k], model[k], impl[k])

    # (c) sequential end-to-end runs: Create; Write*; Close; Get through the inline and the gRPC client
    e2e = {}
    for mode, ncases, per in (("inline", 4 if quick else 20, 12), ("grpc", 2 if quick else 8, 10)):
        lines, expect, descr = e2e_cases(C.rng_for(rep.seed, "c12-e2e-" + mode), ncases, per)
        out = C.run_lines(fsdbh, "hist", lines, timeout=900, extra_args=[mode])
        if len(out) != len(expect):
            raise C.CheckBroken("hist output length mismatch in e2e %s: %d vs %d" % (mode, len(out), len(expect)))
        nbad = 0
        for o, e, d in zip(out, expect, descr):
            if d is None or o == e:
                continue
            if mode == "grpc" and o.startswith("err") and e == "ok":
                continue    # D6 (unmapped stream errors) is C11's business; only successful contents are compared
            nbad += 1
            if nbad <= 2:
                rep.violation(dict(kind="property", origin="sequential end-to-end (%s client)" % mode,
                                   what="Create/Write*/Close then Get does not return the concatenation of the writes",
                                   case=d, expected=e, impl=o,
                                   note="hist step: set <handle> <key> <value id> <total length> c<write sizes>; the rest is written in one final Write"))
        e2e[mode] = dict(steps=len([d for d in descr if d]), mismatches=nbad)
        evaluations += e2e[mode]["steps"]

    # (c') scripted: the inline Create's storing goroutine is parked right after its store FAILED (pause point
    # inline.create.setFailed, before the error is handed to the file): Close must still be waiting - it may not return
    # before the failure is recorded - and must report the error class afterwards; the old value stays
    from lib import histprops as _P
    for c in _P.corpus("c12_inline.txt"):
        o = C.run_lines(fsdbh, "hist", c.split("\n"), timeout=120)
        ops = [l for l in c.split("\n") if not l.startswith("keytab")]
        res = dict(zip(ops, o))
        evaluations += 1
        if any(r in ("AWAIT-TIMEOUT", "WAIT-TIMEOUT") for r in o):
            raise C.CheckBroken("scripted inline Create schedule did not run as scripted: %s" % o)
        if res.get("poll A 300") != "RUNNING" or res.get("wait A") != "err EmptyKey":
            rep.violation(dict(kind="property", origin="scripted schedule through pause point inline.create.setFailed",
                               what="Close returned (%s) while the failing store had not yet reported its error, or the error class is lost "
                                    "(after release: %s): a failed store must make Close (or a Write) fail with its class" % (
                                        res.get("poll A 300"), res.get("wait A")), case=c, impl=o))
    e2e["scripted_failed_store"] = len(_P.corpus("c12_inline.txt"))

    # (d) the stream writer's chunking against the model (writer_chunks)
    sw = sw_cases(C.rng_for(rep.seed, "c12-sw"), 300 if quick else 3000)
    sw_i = C.run_lines(fsdbh, "swchunks", sw)
    sw_m = C.run_lines(C.DRIVER, "sw", sw)
    sw_bad = [k for k in range(len(sw)) if sw_i[k] != sw_m[k] or not sw_i[k].endswith(" ok")]
    evaluations += len(sw)
    for k in sw_bad[:2]:
        rep.violation(dict(kind="property" if not sw_i[k].endswith(" ok") else "correspondence",
                           what="stream writer chunks: concatenation or chunk sizes differ",
                           case=sw[k], impl=sw_i[k], model=sw_m[k]), no_input=sw_i[k].endswith(" ok"))

    # a seeded sample of the cases (and all witnesses, under their own variant) re-evaluated inside Coq
    idx = list(range(len(cases)))
    rng.shuffle(idx)
    sample = [(cases[k], model[k]) for k in idx[:150 if quick else 1000]]
    sample += [(c, m) for (_, c), m in zip(wit_cases, w_model_own)]
    vm = vm_crosscheck(sample)

    distinct = len({C.case_hash(" ".join(c.split()[1:])) for c, m in zip(cases, model) if nontrivial(c, m)})
    pts = {}
    for m in model:
        for e in split_line(m)[1]:
            p = e.split("@")[1] if "@" in e else e.split(":")[1]
            pts[p] = pts.get(p, 0) + 1
    rep.coverage.update(
        evaluations=evaluations, distinct_nontrivial=distinct,
        rule="(a) the two recorded witness schedules (corpus/c12_d2.txt, corpus/c12_d3.txt) first; (b) the extracted model "
             "enumerates, for every write list of up to 3 writes with sizes in {0,1,2} and read buffers B in {1,2}, every complete "
             "schedule that a pause-point controller can replay (eager-normal: a thread that is inside cv.Wait or blocked in a "
             "primitive moves as soon as it can; the other schedules differ only in how long such a thread lingers and are covered "
             "by the theorems, not by replay), plus the same with one probe (a thread the model says is not enabled is released "
             "and must block) and the error family (sink fails at Read return 0..3); every schedule is replayed on the real "
             "readWriter and the pause-point trace, Write/Close results and stored bytes are compared with the model; the property "
             "oracle (Close returned; nil => content = concatenation; error iff the sink failed) is evaluated on every "
             "implementation run; (c) sequential Create/Write*/Close/Get through the inline and gRPC clients with write sizes from "
             "{0,1,32767,32768,32769}; (d) streamwriter chunking vs writer_chunks. non-trivial = the reader parks on the condition "
             "variable or is woken at least once in the run; distinct = by (B, fail, writes, schedule)",
        exhaustive=True,
        exhaustive_part="(b) without probes: all %d eager-normal complete schedules of the family (quick and thorough); with one "
                        "probe: exhaustive for <= 2 writes in quick (3 writes: seeded sample of 6000), exhaustive in thorough" % len(base),
        schedules_enumerated=dict(all_model_schedules=n_all, replayable_eager_normal=len(base),
                                  with_one_probe_total=n_probed_total, with_one_probe_replayed=len(probed),
                                  error_family=len(errs), write_lists=len(reqs)),
        traces_validated_against_impl=len(cases) + len(wit_cases),
        impl_vs_model_mismatches=len(bad), oracle_failures=len(orc),
        witnesses=wit_report, e2e=e2e, stream_writer_cases=len(sw), stream_writer_mismatches=len(sw_bad),
        pause_point_events=pts, vm_compute_crosschecked=vm,
        refuted_theorems=["C12_content_refuted_orig", "C12_close_returns_refuted_orig", "C12_loop_only_refuted",
                          "C12_lock_only_refuted"],
        partial_theorems=[],
        samples=[dict(case=ann[k], model=model[k][:400], impl=impl[k][:400])
                 for k in (0, len(base) // 2, len(base) + len(probed) // 2, len(cases) - 1) if k < len(cases)],
        replay_wall_s=round(time.time() - t_start, 2), proof_ok=proof_ok)
    rep.assumptions = [
        "step granularity = the code between two pause points (Appendix A); interleavings inside a step, and the runtime's "
        "own implementation of Mutex/Cond/WaitGroup, are outside the theorems",
        "one writer thread and one storing thread per file (what Create sets up); bytes are N; the sink is modelled as "
        "Read-until-EOF with a fixed buffer and at most one failure point",
        "replay covers the eager-normal schedules only: the moment at which a goroutine blocked inside cv.Wait/Lock resumes "
        "cannot be delayed by pause points",
    ]


def replay(rep, path):
    p = json.load(open(path))
    fsdbh = C.ensure_harness()
    C.ensure_driver()
    case = p["case"]
    if case.split()[0] in ("set",) or p.get("origin", "").startswith("sequential"):
        print("end-to-end case:", case)
        print("expected:", p.get("expected"))
        print("recorded impl:", p.get("impl"))
        lines = ["case r roots=1", "keytab 6b31"] + [s.strip() for s in case.split(" ; ")] + ["end"]
        mode = "grpc" if "gRPC" in p.get("origin", "") or "grpc" in p.get("origin", "") else "inline"
        out = C.run_lines(fsdbh, "hist", lines, extra_args=[mode])
        print("impl now:", out)
        return 0 if p.get("expected") in out else 1
    if len(case.split()) == 3:
        i = C.run_lines(fsdbh, "swchunks", [case])
        m = C.run_lines(C.DRIVER, "sw", [case])
        print("case :", case); print("impl :", i[0]); print("model:", m[0])
        return 0 if i[0] == m[0] and i[0].endswith(" ok") else 1
    m = run_model([as_fixed(case)])[0]
    a = annotate(case, m)
    i = run_impl(fsdbh, [a])[0]
    why = oracle(a, i)
    print("case  :", a)
    print("impl  :", i)
    print("model :", m, "(rw_fixed)")
    if case.split()[1] != "f":
        print("model :", run_model([case])[0], "(variant %s)" % case.split()[1])
    print("oracle:", why or "ok")
    print("trace :", "equal" if corresponds(m, i) else "DIFFERENT")
    if case.split()[1] != "f":
        return 1 if why else 0      # witness of another variant: only the property oracle decides
    return 1 if (why or not corresponds(m, i)) else 0
