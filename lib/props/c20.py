"""C20 — configuration: defaults < file < environment, with validation.

Case format: see harness/config.go.  Settings are always in the order
port dbPath maxDirCount rootDirs gcPeriod numWorkers sendDuration."""
import json
import os
import re
import shutil
import tempfile

from lib import common as C

NAMES = ["port", "dbPath", "maxDirCount", "rootDirs", "gcPeriod", "numWorkers", "sendDuration"]
ENVS = ["PORT", "DB_PATH", "DIR_COUNT", "ROOT_DIRS", "GC_PERIOD", "NUM_WORKERS", "SEND_DURATION"]
KIND = ["int", "str", "uint", "list", "dur", "int", "dur"]
OUTKEY = ["p", "db", "dc", "rd", "gc", "nw", "sd"]
GEN = os.path.join(C.COQ, "ConfigGen.v")
NBADF = {"int": 5, "uint": 4, "dur": 4, "str": 2, "list": 3}
NBADE = {"int": 6, "uint": 4, "dur": 4}


def x(s):
    return "x" + s.encode().hex()


def xl(l):
    return ",".join(x(s) for s in l) if l else "-"


# values that identify their source
FILE_VAL = ["=1111", "=" + x("/file/db"), "=50", "=" + xl(["/file/r1", "/file/r2"]), "=5000000000", "=3", "=2000000"]
ENV_VAL = ["=2222", "=" + x("/env/db"), "=5000", "=" + x("/env/r1;/env/r2"), "=7000000000", "=5", "=3000000"]
ENV_ALT = {1: "=" + x("/env dir;x: y"), 3: "=" + x(";/e 1;;#x")}   # string settings: no malformed text exists


def line(cid, g, mode, f, e):
    return "%s P %d %s %s %s" % (cid, g, mode, " ".join(f), " ".join(e))


def exhaustive_cases():
    """per setting: 3 file states x 4 environment states, the other six settings in three
    background states (absent everywhere / all in the file / all in the environment)"""
    out = []
    for s in range(7):
        for fi, fs in enumerate(["-", FILE_VAL[s], "!0"]):
            estates = ["-", "e", ENV_VAL[s], "!0" if s not in ENV_ALT else ENV_ALT[s]]
            for ei, es in enumerate(estates):
                for bg in range(3):
                    f = ["-" if bg != 1 else FILE_VAL[k] for k in range(7)]
                    e = ["-" if bg != 2 else ENV_VAL[k] for k in range(7)]
                    f[s], e[s] = fs, es
                    mode = "F" if any(t != "-" for t in f) else "N"
                    out.append(line("x%d.%d%d%d" % (s, fi, ei, bg), 7, mode, f, e))
    return out


def fixed_cases():
    """boundary cases: the four file modes, every malformed-text variant, empty strings/lists,
    the shipped config.yaml"""
    out = []
    none = ["-"] * 7
    k = 0

    def add(g, mode, f, e):
        nonlocal k
        out.append(line("b%d" % k, g, mode, f, e))
        k += 1
    for mode in "NMEF":
        add(3, mode, none, none)
        add(3, mode, none, ENV_VAL)
        add(3, mode, none, ["e"] * 7)
        add(3, mode, none, ["-", "-", "-", "-", "-", "-", "!0"])
    for s in range(7):
        for v in range(NBADF[KIND[s]]):
            f = list(none)
            f[s] = "!%d" % v
            add(2, "F", f, none)
            add(2, "F", f, ENV_VAL)
        for v in range(NBADE.get(KIND[s], 0)):
            e = list(none)
            e[s] = "!%d" % v
            add(2, "N", none, e)
            add(2, "F", FILE_VAL, e)
    # empty database path / empty root list reach Valid only through the file
    add(4, "F", ["-", "=x", "-", "-", "-", "-", "-"], none)
    add(4, "F", ["-", "-", "-", "=-", "-", "-", "-"], none)
    add(4, "F", ["-", "=x", "-", "=-", "-", "-", "-"], none)
    add(4, "F", ["-", "=x", "=5", "=-", "-", "-", "-"], ["-", "=" + x("d"), "-", "-", "-", "-", "-"])
    add(4, "F", ["-", "=x", "=5", "=-", "-", "-", "-"], ["-", "-", "-", "=" + x(";"), "-", "-", "-"])
    add(4, "F", ["-", "-", "-", "=" + xl([""]), "-", "-", "-"], none)
    for dc in (0, 1, 99, 100, 101, 2**64 - 1):
        add(4, "F", ["-", "-", "=%d" % dc, "-", "-", "-", "-"], none)
        add(4, "N", none, ["-", "-", "=%d" % dc, "-", "-", "-", "-"])
    # the repository's own config/config.yaml
    add(8, "F", ["=8888", "=" + x("test_db"), "=100", "=" + xl(["./testStorage"]), "=60000000000", "-", "=1000000"], none)
    # two malformed environment values: still one error
    add(4, "N", none, ["!0", "-", "!1", "-", "!2", "!3", "!0"])
    add(4, "F", ["!0", "-", "-", "-", "-", "-", "-"], ["!0", "-", "-", "-", "-", "-", "-"])
    return out


INTS = [0, 1, -1, 99, 100, 101, 8888, 65535, 2**31 - 1, 2**31, 2**63 - 1, -(2**63 - 1)]
UINTS = [0, 1, 99, 100, 101, 1000000, 2**32, 2**63, 2**64 - 1]
DURS = [0, 1, -1, 10**6, 6 * 10**10, 3600 * 10**9, 2**63 - 1, -(2**63 - 1)]
ALPHA = "abcXYZ019/._- ;:#'\"\\{}[],&*!|>%@`~$="


def rstr(rng, lo, hi):
    return "".join(rng.choice(ALPHA) for _ in range(rng.randrange(lo, hi + 1)))


def rval(rng, s, env):
    k = KIND[s]
    if k == "int":
        return "=%d" % rng.choice([rng.choice(INTS), rng.randrange(-10**6, 10**6), rng.randrange(-2**62, 2**62)])
    if k == "uint":
        return "=%d" % rng.choice([rng.choice(UINTS), rng.randrange(0, 300), rng.randrange(0, 2**64)])
    if k == "dur":
        return "=%d" % rng.choice([rng.choice(DURS), rng.randrange(-10**12, 10**12), rng.randrange(-2**62, 2**62)])
    if k == "str":
        return "=" + x(rstr(rng, 1 if env else 0, 12))
    if env:
        return "=" + x(rstr(rng, 1, 16))
    return "=" + xl([rstr(rng, 0, 8) for _ in range(rng.randrange(0, 4))])


def random_case(rng, n):
    mode = rng.choices("NEMF", weights=[10, 5, 3, 82])[0]
    f, e = [], []
    for s in range(7):
        r = rng.random()
        if mode != "F" or r < 0.35:
            f.append("-")
        elif r < 0.96:
            f.append(rval(rng, s, False))
        else:
            f.append("!%d" % rng.randrange(NBADF[KIND[s]]))
        r = rng.random()
        if r < 0.35:
            e.append("-")
        elif r < 0.5:
            e.append("e")
        elif r < 0.96 or KIND[s] in ("str", "list"):
            e.append(rval(rng, s, True))
        else:
            e.append("!%d" % rng.randrange(NBADE[KIND[s]]))
    return line("r%d" % n, rng.randrange(1, 17), mode, f, e)


def valid_cases(rng, nrand):
    out = []
    k = 0
    for db in ("", "a", "/data/db"):
        for dc in UINTS:
            for rd in ([], [""], ["a"], ["a", "b"]):
                out.append("v%d V %s %d %s %d" % (k, x(db), dc, xl(rd), rng.choice(DURS)))
                k += 1
    for _ in range(nrand):
        out.append("v%d V %s %d %s %d" % (k, x(rstr(rng, 0, 6)), rng.choice([rng.choice(UINTS), rng.randrange(0, 200)]),
                                        xl([rstr(rng, 0, 6) for _ in range(rng.randrange(0, 3))]), rng.randrange(-2**62, 2**62)))
        k += 1
    return out


def fstate(t):
    return "absent" if t == "-" else "malformed" if t[0] == "!" else "value"


def estate(t):
    return "unset" if t == "-" else "empty" if t == "e" else "malformed" if t[0] == "!" else "value"


def nontrivial(c):
    t = c.split()
    if t[1] == "V":
        return t[2] == "x" or t[4] == "-" or int(t[3]) < 100
    f, e = t[4:11], t[11:18]
    if t[3] != "F":
        f = ["-"] * 7
    return any((f[s] != "-" and e[s] != "-") or f[s][0] == "!" or e[s][0] == "!" for s in range(7))


def run_both(fsdbh, lines):
    impl = C.run_lines(fsdbh, "config", lines)
    model = C.run_lines(C.DRIVER, "config", lines)
    if not (len(impl) == len(model) == len(lines)):
        raise C.CheckBroken("output length mismatch %d/%d/%d" % (len(impl), len(model), len(lines)))
    return impl, model


def fields(out):
    """'id ok p=.. db=.. ... valid=..' -> dict; 'id err parse' -> {'err': 'parse'}"""
    t = out.split()
    if len(t) >= 3 and t[1] == "err":
        return {"err": t[2]}
    d = {}
    for tok in t[1:]:
        if "=" in tok:
            a, b = tok.split("=", 1)
            d[a] = b
    if len(t) > 1 and t[1] not in ("ok",) and "=" not in t[1]:
        d["abnormal"] = " ".join(t[1:])
    return d


def describe(case, impl, model):
    """human-readable account of the first difference, in the property's vocabulary"""
    t = case.split()
    fi, fm = fields(impl), fields(model)
    if t[1] == "V":
        return dict(call="Storage.Valid", storage=dict(dbPath=t[2], maxDirCount=t[3], rootDirs=t[4], gcPeriod=t[5]),
                    observed=fi.get("valid", impl), required=fm.get("valid", model))
    f, e = t[4:11], t[11:18]
    if t[3] != "F":
        f = ["-"] * 7
    inputs = {NAMES[s]: dict(file=fstate(f[s]) + (" " + f[s][1:] if f[s][0] == "=" else ""),
                             env=ENVS[s] + " " + estate(e[s]) + (" " + e[s][1:] if e[s][0] == "=" else ""))
              for s in range(7) if f[s] != "-" or e[s] != "-"}
    d = dict(call="config.ParseConfig", file_mode={"N": "no file named", "M": "named file missing", "E": "empty file",
                                                   "F": "file with the entries below"}[t[3]],
             gomaxprocs=t[2], settings_given=inputs)
    if "err" in fi or "err" in fm or "abnormal" in fi:
        d.update(observed=" ".join(impl.split()[1:]), required=" ".join(model.split()[1:]),
                 what="error/no-error differs: a malformed value must be an error, a well-formed configuration must not")
        return d
    for s in range(7):
        if fi.get(OUTKEY[s]) != fm.get(OUTKEY[s]):
            d.update(setting=NAMES[s], observed=fi.get(OUTKEY[s]), required=fm.get(OUTKEY[s]),
                     what="effective %s is not 'environment if set and non-empty, else file, else documented default'" % NAMES[s])
            return d
    d.update(setting="Storage.Valid on the parsed configuration", observed=fi.get("valid"), required=fm.get("valid"),
             what="validation differs (ErrEmptyDbPath first, then ErrEmptyRootDirs; limit raised to 100; nothing else changed)")
    return d


def shrink(fsdbh, case):
    """drop settings from a parse case while impl != model persists"""
    t = case.split()
    if t[1] != "P":
        return case

    def differs(tt):
        i, m = run_both(fsdbh, [" ".join(tt)])
        return i[0] != m[0]
    for k in range(4, 18):
        if t[k] != "-":
            cand = list(t)
            cand[k] = "-"
            if cand[3] == "F" and all(v == "-" for v in cand[4:11]):
                cand2 = list(cand)
                cand2[3] = "N"
                if differs(cand2):
                    t = cand2
                    continue
            if differs(cand):
                t = cand
    return " ".join(t)


# --------------------------------------------------------------------------
# translator-tied constants

def parse_defs(src):
    return {m.group(1): " ".join(m.group(2).split())
            for m in re.finditer(r"Definition\s+(\w+)\s*:[^=]*?:=\s*(.*?)\.\s*\n", src, re.S)}


def regen(fsdbh):
    """regenerate ConfigGen.v from the Go source; returns a status dict"""
    src = os.path.join(C.REPO, "config", "config.go")
    pinned = open(GEN).read()
    rc, out, err = C.sh2([fsdbh, "gen-config", src], timeout=60)
    if rc != 0:
        return dict(status="translator-failed", detail=(err or out)[-2000:], changed=[])
    if out == pinned:
        return dict(status="same", changed=[])
    a, b = parse_defs(pinned), parse_defs(out)
    changed = [dict(constant=k, pinned=a.get(k), now=b.get(k)) for k in sorted(set(a) | set(b)) if a.get(k) != b.get(k)]
    d = tempfile.mkdtemp(prefix="verif-c20-")
    try:
        os.makedirs(os.path.join(d, "Properties"))
        with open(os.path.join(d, "ConfigGen.v"), "w") as f:
            f.write(out)
        for n in ("Config.v", "ConfigProofs.v", "Properties/C20.v"):
            shutil.copy(os.path.join(C.COQ, n), os.path.join(d, n))
        log = ""
        ok = True
        for n in ("ConfigGen.v", "Config.v", "ConfigProofs.v", "Properties/C20.v"):
            rc, o = C.sh("timeout 600 coqc -Q . FsDb %s" % n, cwd=d, timeout=650)
            if rc != 0:
                ok = False
                log = "coqc %s:\n%s" % (n, o[-3000:])
                break
    finally:
        shutil.rmtree(d, ignore_errors=True)
    if ok:
        with C.Lock("coq"):
            with open(GEN, "w") as f:
                f.write(out)
        C.ensure_coq()
        return dict(status="updated", changed=changed)
    return dict(status="broken", changed=changed, detail=log)


# --------------------------------------------------------------------------
# in-Coq evaluation (vm_compute) of a sample, against the extracted model's output

def cz(v):
    return "(%d)%%Z" % int(v)


def cbytes(tok):
    b = bytes.fromhex(tok[1:])
    return "[" + "; ".join(str(c) for c in b) + "]"


def clist(tok):
    return "[]" if tok == "-" else "[" + "; ".join(cbytes(i) for i in tok.split(",")) + "]"


def cfile(s, tok):
    if tok == "-":
        return "FAbsent"
    if tok[0] == "!":
        return "FBad"
    v = tok[1:]
    k = KIND[s]
    return "FValue " + (cz(v) if k in ("int", "dur") else v if k == "uint" else cbytes(v) if k == "str" else clist(v))


def cenv(s, tok):
    k = KIND[s]
    if k in ("str", "list"):
        return "None" if tok == "-" else "(Some [])" if tok == "e" else "(Some %s)" % cbytes(tok[1:])
    if tok == "-":
        return "EUnset"
    if tok == "e":
        return "EEmpty"
    if tok[0] == "!":
        return "EBad"
    return "EValue " + (tok[1:] if k == "uint" else cz(tok[1:]))


def cstorage(db, dc, rd, gc):
    return "{| s_db_path := %s; s_max_dir_count := %s; s_root_dirs := %s; s_gc_period := %s |}" % (cbytes(db), dc, clist(rd), cz(gc))


def cvalid(v):
    if v.startswith("Err"):
        return "(VErr V%s)" % v
    _, db, dc, rd, gc = v.split("/")
    return "(VOK %s)" % cstorage(db, dc, rd, gc)


def coq_example(k, case, model_out):
    t = case.split()
    m = fields(model_out)
    if t[1] == "V":
        return "Example ck%d : run_valid %s = %s.\nProof. vm_compute. reflexivity. Qed.\n" % (
            k, cstorage(t[2], t[3], t[4], t[5]), cvalid(m["valid"])[1:-1])
    f, e = t[4:11], t[11:18]
    fn = ["f_port", "f_db", "f_dc", "f_rd", "f_gc", "f_nw", "f_sd"]
    en = ["e_port", "e_db", "e_dc", "e_rd", "e_gc", "e_nw", "e_sd"]
    frec = "{| " + "; ".join("%s := %s" % (fn[s], cfile(s, f[s])) for s in range(7)) + " |}"
    erec = "{| " + "; ".join("%s := %s" % (en[s], cenv(s, e[s])) for s in range(7)) + " |}"
    fa = {"N": "NoFile", "M": "MissingFile", "E": "EmptyFile", "F": "File " + frec}[t[3]]
    inp = "{| i_file := %s; i_env := %s; i_procs := %s |}" % (fa, erec, cz(t[2]))
    if "err" in m:
        exp = "CfgErr"
    else:
        exp = "CfgOk {| c_port := %s; c_storage := %s; c_wpool := {| w_num_workers := %s; w_send_duration := %s |} |} %s" % (
            cz(m["p"]), cstorage(m["db"], m["dc"], m["rd"], m["gc"]), cz(m["nw"]), cz(m["sd"]), cvalid(m["valid"]))
    return "Example ck%d : run_parse %s = %s.\nProof. vm_compute. reflexivity. Qed.\n" % (k, inp, exp)


def vm_crosscheck(cases, model_out):
    d = tempfile.mkdtemp(prefix="verif-c20-")
    try:
        src = ("From Coq Require Import List ZArith NArith.\nFrom FsDb Require Import Config.\n"
               "Import ListNotations.\nOpen Scope N_scope.\n" +
               "".join(coq_example(k, c, o) for k, (c, o) in enumerate(zip(cases, model_out))))
        with open(os.path.join(d, "cases.v"), "w") as f:
            f.write(src)
        rc, out = C.sh("timeout 600 coqc -Q %s FsDb cases.v" % C.COQ, cwd=d, timeout=650)
        if rc != 0:
            raise C.CheckBroken("extracted model and vm_compute disagree, or cases.v is ill-formed (TCB alarm):\n" + out[-3000:])
        return len(cases)
    finally:
        shutil.rmtree(d, ignore_errors=True)


# --------------------------------------------------------------------------

def run(rep):
    rng = C.rng_for(rep.seed, "c20")
    proof_ok = C.proof_step(rep, "C20")
    fsdbh = C.ensure_harness()
    gen = regen(fsdbh)
    if gen["status"] == "updated":
        proof_ok = C.proof_step(rep, "C20")
    C.ensure_driver()

    ex = exhaustive_cases()
    fx = fixed_cases()
    nrand = 200 if rep.tier == "quick" else 8000
    rnd = [random_case(rng, n) for n in range(nrand)]
    vc = valid_cases(rng, 100 if rep.tier == "quick" else 1000)
    cases = fx + ex + rnd + vc
    impl, model = run_both(fsdbh, cases)
    bad = [k for k in range(len(cases)) if impl[k] != model[k]]

    const_broken = gen["status"] in ("broken", "translator-failed")
    const_info = dict(generated_file="coq/ConfigGen.v", status=gen["status"], changed_constants=gen["changed"],
                      detail=gen.get("detail", ""))
    seen = set()
    for k in bad[:8]:          # each one is shrunk (about 15 child runs); at most 3 distinct differences are reported
        if len(seen) >= 3:
            break
        small = shrink(fsdbh, cases[k])
        i, m = run_both(fsdbh, [small])
        d = describe(small, i[0], m[0])
        sig = (d.get("call"), d.get("setting"), d.get("what"))
        if sig in seen:
            continue
        seen.add(sig)
        payload = dict(kind="correspondence", correspondence="fsdbh config (config.ParseConfig / Storage.Valid in a child process) "
                       "vs coq/Config.v (run_parse/run_valid); the model is the C20 specification",
                       case=small, original_case=cases[k], impl=i[0], model=m[0], difference=d)
        if const_broken:
            payload["constants"] = const_info
        rep.violation(payload)
    if const_broken and not bad:
        rep.coverage.update(discharged=0)
        rep.violation(dict(kind="proof-broken", theorem_file="coq/Properties/C20.v",
                           what="ConfigGen.v regenerated from config/config.go no longer satisfies the C20 theorems "
                                "(documented constants / lookup order / defaultConfig wiring), but no generated input "
                                "behaves differently from the model built with the documented constants",
                           constants=const_info), no_input=True)
    elif const_broken:
        rep.coverage.update(discharged=0)

    # in-Coq evaluation of a seeded sample
    nparse = len(fx) + len(ex) + len(rnd)
    sample_idx = sorted(rng.sample(range(nparse), min(220, nparse))) + sorted(rng.sample(range(nparse, len(cases)), 30))
    vm = vm_crosscheck([cases[k] for k in sample_idx], [model[k] for k in sample_idx])

    distinct = len({C.case_hash(" ".join(c.split()[1:])) for c in cases if nontrivial(c)})
    fcount, ecount, modes, results = {}, {}, {}, {}
    for k, c in enumerate(cases):
        t = c.split()
        fm = fields(impl[k])
        r = "err parse" if "err" in fm else ("valid " + fm.get("valid", "?").split("/")[0])
        if t[1] == "P":
            modes[t[3]] = modes.get(t[3], 0) + 1
            for s in range(7):
                if t[3] == "F":
                    fcount[fstate(t[4 + s])] = fcount.get(fstate(t[4 + s]), 0) + 1
                ecount[estate(t[11 + s])] = ecount.get(estate(t[11 + s]), 0) + 1
            r = "parse: " + ("error" if "err" in fm else "ok, " + r)
        else:
            r = "Valid only: " + r
        results[r] = results.get(r, 0) + 1
    clamped = sum(1 for k in range(len(cases)) if "valid=ok/" in impl[k] and
                  (("dc=" in impl[k] and fields(impl[k]).get("dc") != fields(impl[k])["valid"].split("/")[2]) or
                   (cases[k].split()[1] == "V" and cases[k].split()[3] != fields(impl[k])["valid"].split("/")[2])))
    rep.coverage.update(
        evaluations=len(cases), distinct_nontrivial=distinct,
        rule="cases = boundary cases (4 file modes, every malformed-text variant per kind in file and environment, empty "
             "dbPath / rootDirs, limits around 100, the shipped config.yaml) + EXHAUSTIVE(7 settings x 3 file states x 4 "
             "environment states x 3 background states of the other six settings) + seeded random full combinations "
             "(boundary integers/durations, strings with YAML- and ';'-special characters) + Storage.Valid on a grid and "
             "random storages; every parse case runs config.ParseConfig then Storage.Valid in a child process with exactly "
             "the case's environment; non-trivial = some setting given by both file and environment, or a malformed value "
             "(Valid cases: empty path/list or limit < 100); distinct by case hash",
        exhaustive=True, exhaustive_part="per setting all 3x4 file x environment states x 3 background states (%d cases)" % len(ex),
        boundary_cases=len(fx), random_cases=len(rnd), valid_cases=len(vc),
        file_modes=modes, file_states=fcount, env_states=ecount, result_classes=results, limit_raised_cases=clamped,
        traces_validated_against_impl=len(cases), impl_vs_model_mismatches=len(bad),
        vm_compute_crosschecked=vm, constants_regenerated=gen["status"], constants_changed=gen["changed"],
        samples=[dict(case=cases[k][:300], impl=impl[k][:300]) for k in (0, len(fx) + 130, len(fx) + len(ex) + 1, len(cases) - 1)],
        proof_ok=proof_ok and not const_broken)
    rep.assumptions = [
        "YAML decoding and strconv.Atoi/ParseUint/time.ParseDuration are abstracted to 'well-formed value v | malformed': "
        "what yaml.v2 coerces (e.g. `port: 1.5` -> 1, `gcPeriod: 5` -> 5ns, `port: ~` -> 0) counts as a value, not as malformed",
        "strings are byte lists; generated strings are printable ASCII; integers within int64, durations within +-(2^63-1) ns",
        "the default number of workers is runtime.GOMAXPROCS(0), an input of the model (the child runs with GOMAXPROCS=<g>)",
        "environment variables are set under their DOCUMENTED names by the harness; the names in the source are pinned by "
        "theorem C20_documented_env_names over the regenerated ConfigGen.v",
        "the returned error is compared as a class (error / no error, ErrEmptyDbPath, ErrEmptyRootDirs via errors.Is); which "
        "malformed value is reported first (C20_error_source) is proved on the model and tied to the source only through the "
        "translator's os.LookupEnv order",
    ]


def replay(rep, path):
    p = json.load(open(path))
    fsdbh = C.ensure_harness()
    C.ensure_driver()
    if "case" in p:
        i, m = run_both(fsdbh, [p["case"]])
        print("case :", p["case"]); print("impl :", i[0]); print("model:", m[0])
        if i[0] != m[0]:
            print("diff :", json.dumps(describe(p["case"], i[0], m[0]), sort_keys=True))
        return 0 if i[0] == m[0] else 1
    g = regen(fsdbh)
    print("constants regenerated from config/config.go:", g["status"])
    for c in g["changed"]:
        print("  %s: pinned %s, now %s" % (c["constant"], c["pinned"], c["now"]))
    if g.get("detail"):
        print(g["detail"])
    return 1 if g["status"] in ("broken", "translator-failed") else 0
