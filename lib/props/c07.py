"""C07 — first committer wins: concurrently committing snapshot transactions with intersecting write sets."""
import itertools
import json

from lib import common as C
from lib import lockskel as LS
from lib import histgen as G
from lib import histcheck as H
from lib import histprops as P

LEVELS = ["RR", "SER"]


def gen_case(rng, cid, ncommit, with_writer, mixed_levels=False, empty_store=False):
    nkeys = rng.randint(1, 3)
    keys = sorted(rng.sample([b"a", b"b", b"c", b"d"], nkeys))
    ls = ["case %s roots=1" % cid, "keytab " + " ".join(k.hex() for k in keys)]
    v = 0
    for k in range(1, nkeys + 1):
        if empty_store:
            break           # a store that was EMPTY when it was opened: the concurrent commits are the first to touch the committed store
        v += 1
        ls.append("set 0 %d %d 3 s" % (k, v))
    for t in range(1, ncommit + 1):
        lvl = rng.choice(LEVELS if not mixed_levels else ["RR", "SER", "RC", "RU"])
        ls.append("begin " + lvl)
    common = rng.randint(1, nkeys)
    for t in range(1, ncommit + 1):
        ws = {common} | {rng.randint(1, nkeys) for _ in range(rng.randint(0, 2))}
        for k in sorted(ws):
            v += 1
            ls.append(rng.choice(["set %d %d %d 3 s" % (t, k, v), "set %d %d %d 3 %s" % (t, k, v, rng.choice(["r2", "c1", "c", "c3"])),
                                  "del %d %d" % (t, k)]))
    groups = ["commit %d" % t for t in range(1, ncommit + 1)]
    if with_writer:
        v += 1
        groups.append("set 0 %d %d 4 s" % (rng.randint(1, nkeys), v))
    rng.shuffle(groups)
    ls.append("par " + " || ".join(groups))
    ls += ["keys 0"] + ["get 0 %d g" % k for k in range(1, nkeys + 1)] + ["gc"] + ["get 0 %d g" % k for k in range(1, nkeys + 1)]
    ls.append("end")
    return "\n".join(ls)


def gen_staggered(rng, cid):
    """writes that come AFTER another transaction's commit: the conflict test must look at what was committed since the
    transaction BEGAN, not since it last wrote.  One transaction commits sequentially in the middle; the others write
    (some of them the same key) afterwards and then commit concurrently."""
    nkeys = rng.randint(1, 3)
    keys = sorted(rng.sample([b"a", b"b", b"c", b"d"], nkeys))
    ls = ["case %s roots=1" % cid, "keytab " + " ".join(k.hex() for k in keys)]
    v = 0
    for k in range(1, nkeys + 1):
        v += 1
        ls.append("set 0 %d %d 3 s" % (k, v))
    n = rng.choice([2, 3])
    for t in range(1, n + 1):
        ls.append("begin " + rng.choice(LEVELS))
    common = rng.randint(1, nkeys)
    v += 1
    ls.append("set 1 %d %d 3 s" % (common, v))
    if rng.random() < 0.5:
        v += 1
        ls.append("set 2 %d %d 3 s" % (rng.randint(1, nkeys), v))          # an early write of a later committer
    ls.append("commit 1")
    for t in range(2, n + 1):
        ws = ({common} if rng.random() < 0.8 else set()) | {rng.randint(1, nkeys) for _ in range(rng.randint(0, 1))}
        for k in sorted(ws) or [common]:
            v += 1
            ls.append(rng.choice(["set %d %d %d 3 s" % (t, k, v), "del %d %d" % (t, k)]))
    ls.append("par " + " || ".join("commit %d" % t for t in range(2, n + 1)))
    ls += ["keys 0"] + ["get 0 %d g" % k for k in range(1, nkeys + 1)] + ["gc"] + ["get 0 %d g" % k for k in range(1, nkeys + 1)]
    ls.append("end")
    return "\n".join(ls)


def sequentialisations(case):
    """(permutation, sequential case) for every order of the parallel group"""
    ls = case.split("\n")
    i = next(k for k, l in enumerate(ls) if l.startswith("par "))
    groups = [g.strip() for g in ls[i][4:].split("||")]
    out = []
    for perm in itertools.permutations(range(len(groups))):
        seq = ls[:i] + [groups[p] for p in perm] + ls[i + 1:]
        out.append((perm, i, len(groups), "\n".join(seq)))
    return out


def fold_back(perm, i, n, out_lines):
    """model output of a sequentialised case -> output shape of the par case (header line has no output index shift: keytab has none)"""
    # out_lines: one per non-keytab line; position of par line among outputs = i - 1 (keytab line removed)
    j = i - 1
    res = [None] * n
    for pos, p in enumerate(perm):
        res[p] = out_lines[j + pos]
    return out_lines[:j] + [" || ".join(res)] + out_lines[j + n:]


def oracle(case, impl):
    """at most one of the snapshot transactions that wrote a common key commits"""
    ls = [l for l in case.split("\n") if not l.startswith("keytab")]
    lvl, wrote = {}, {}
    h = 0
    for l in ls:
        t = l.split()
        if t[0] == "begin":
            h += 1
            lvl[h] = t[1]
        elif t[0] in ("set", "del") and t[1] != "0":
            wrote.setdefault(int(t[1]), set()).add(t[2])
    i = next(k for k, l in enumerate(ls) if l.startswith("par "))
    groups = [g.strip().split() for g in ls[i][4:].split("||")]
    res = [r.strip() for r in impl[i].split("||")]
    ok = [int(g[1]) for g, r in zip(groups, res) if g[0] == "commit" and r == "ok" and lvl.get(int(g[1])) in ("RR", "SER")]
    for a, b in itertools.combinations(ok, 2):
        if wrote.get(a, set()) & wrote.get(b, set()):
            return "snapshot transactions %d and %d both wrote key(s) %s and both commits succeeded" % (
                a, b, sorted(wrote[a] & wrote[b]))
    return None


def run(rep):
    rng = C.rng_for(rep.seed, "c07")
    proof_ok = C.proof_step(rep, "C07")
    C.ensure_driver()
    fsdbh = C.ensure_harness()
    sk = LS.check(rep, fsdbh, ["UpdateTx", "Store"])      # the conflict test reads the newest committed entry: every publisher
    # (autocommit Store included) must draw its number inside the section that publishes it, or the newest entry is not the last one
    cases = P.corpus("c07.txt")
    ncorpus = len(cases)
    n2, n3 = (40, 12) if rep.tier == "quick" else (400, 150)
    if LS.broken(sk):
        n2, n3 = max(n2, 300), max(n3, 100)
    for i in range(n2):
        cases.append(gen_case(rng, "p%d" % i, 2, with_writer=(i % 3 == 0), mixed_levels=(i % 5 == 4)))
    for i in range(n3):
        cases.append(gen_case(rng, "t%d" % i, 3, with_writer=(i % 2 == 0)))
    for i in range(n2):
        cases.append(gen_staggered(rng, "g%d" % i))
    for i in range(n2 * 2):
        cases.append(gen_case(rng, "e%d" % i, rng.choice([2, 3, 3]), with_writer=False, empty_store=True))
    impl = H.run_sharded(fsdbh, "hist", cases)
    viol, mism, orders = 0, 0, {}
    for c, o in zip(cases, impl):
        why = oracle(c, o)
        if why:
            viol += 1
            if viol <= 3:
                rep.violation(dict(kind="oracle", what=why, case=c, impl=o,
                                   schedule="every committer paused at commit.afterCheck until all have arrived (or 300 ms)"))
            continue
        # the execution must equal one sequential order of the parallel group (atomic commits)
        seqs = sequentialisations(c)
        mouts = H.run_model("hist", [s[3] for s in seqs])
        matched = None
        for (perm, i, n, sc), mo in zip(seqs, mouts):
            folded = fold_back(perm, i, n, H.canon(sc, mo))
            if folded == o:
                matched = perm
                break
        if matched is None:
            mism += 1
            if mism <= 3:
                rep.violation(dict(kind="correspondence", correspondence="parallel commits vs every sequential order of the model",
                                   case=c, impl=o, what="the outcome equals no sequential order of the concurrent operations"))
        else:
            orders[str(matched)] = orders.get(str(matched), 0) + 1
    distinct = len({C.case_hash("\n".join(c.split("\n")[1:])) for c in cases})
    rep.coverage.update(
        evaluations=len(cases), distinct_nontrivial=distinct, corpus_cases=ncorpus,
        rule="2 and 3 concurrently committing transactions (mostly RR/SER, some RC/RU) that wrote a common key (plus 0-2 further "
             "keys, sets and deletes), optionally with a concurrent autocommit writer; every committer is paused at the pause point "
             "commit.afterCheck (after the conflict test) until all of them have arrived or 300 ms have passed - the interleaving "
             "that made both commits succeed on the pinned tree; oracle: no two snapshot transactions with a common written key "
             "both commit; correspondence: the results and all later reads equal ONE sequential order of the group in the model; "
             "every case is non-trivial (intersecting write sets); distinct by hash",
        sequential_orders_observed=orders, traces_validated_against_impl=len(cases),
        oracle_violations=viol, no_sequential_order=mism,
        samples=[dict(case=cases[k].split("\n"), impl=impl[k]) for k in (ncorpus, len(cases) - 1)],
        refuted_theorems=["C07_first_committer_wins_refuted_orig (pinned tree; repaired by a fix: commit)"],
        proof_ok=proof_ok)
    LS.conclude(rep, sk, 'conflict test and publication in ONE critical section of the committed store: C07_one_critical_section; every publisher draws its sequence number inside the section that publishes the version, so the last committed entry of a key is its newest')
    # the atomic commit of the theorem works on ONE committed store: it must be registered from the moment Open returns
    # (Load puts it; commits that find none would each create and lock their own) - also for a store opened empty
    hm = ["case hm roots=1", "keytab 6b31", "hasmain", "begin RR", "set 1 1 1 3 s", "hasmain", "commit 1", "hasmain", "reopen", "hasmain", "end"]
    ho = C.run_lines(fsdbh, "hist", hm, timeout=120)
    if [r for l, r in zip([x for x in hm if not x.startswith("keytab")], ho) if l == "hasmain"] != ["yes"] * 4:
        rep.violation(dict(kind="correspondence", what="the committed version store is not registered when Open returns (the model's commit "
                           "is atomic on ONE committed store; concurrent first commits would each create their own)", case="\n".join(hm), impl=ho))
    rep.coverage["committed_store_registered_at_open"] = ho
    rep.assumptions = ["a critical section under a sync.RWMutex write lock is atomic w.r.t. every other section under that lock "
                       "(Go runtime; DESIGN section 3): with the repaired UpdateTx a commit is one step",
                       "schedules explored on the real code: the adversarial one (all tests before any publication) per case; "
                       "the theorem covers every order"]


def replay(rep, path):
    p = json.load(open(path))
    fsdbh = C.ensure_harness()
    o = H.run_sharded(fsdbh, "hist", [p["case"]], shards=1)[0]
    print("\n".join(p["case"].split("\n")))
    print(o)
    why = oracle(p["case"], o)
    print("oracle:", why or "holds")
    return 1 if why else 0
