"""C17 — content files live in bounded sub-directories of the configured roots.

Proof: coq/Dirs.v, coq/DirsProofs.v, coq/Properties/C17.v.
Tie: `fsdbh dirs` runs seeded histories against the real inline client (limit clamped to 100) and the real
server application (limit 1..5, not clamped) on a real file system, walks the roots after every step at pool
quiescence and reports the directory that received the new file, the directories that lost files, per root the
entry count of every directory (directories numbered by first appearance), the directory repository's active
set and counter.  The extracted model replays the same history with the observed choices (`driver dirs`); the
lines must be equal, the chosen directory must be one the model allows, and the property oracle is evaluated
directly on the implementation's observations."""
import concurrent.futures
import json
import os
import re
import shutil
import tempfile
import time

from lib import common as C

LIMITS_SERVER = [1, 2, 3, 3, 3, 4, 5]
CLAMP = 100


# --------------------------------------------------------------------------
# histories

class Case:
    def __init__(self, cid, mode, roots, maxdir, ops, profile):
        self.cid, self.mode, self.roots, self.maxdir, self.ops, self.profile = cid, mode, roots, maxdir, list(ops), profile

    @property
    def limit(self):
        """the limit the code works with: Storage.Valid (inline only) raises it to >= 100"""
        return max(self.maxdir, CLAMP) if self.mode == "inline" else self.maxdir

    def header(self):
        # how the root paths are spelled in the configuration: canonical, with a trailing slash, or with a "./" component
        # (the project's default is "./testStorage"); derived from the case id so that shrinking and replay keep it
        import zlib
        form = ["clean", "slash", "dot", "clean"][zlib.crc32(self.cid.encode()) % 4]
        return "case %s mode=%s roots=%d maxdir=%d rootform=%s" % (self.cid, self.mode, self.roots, self.maxdir, form)

    def lines(self, ops=None):
        return [self.header()] + list(self.ops if ops is None else ops) + ["end"]

    def with_ops(self, ops):
        return Case(self.cid, self.mode, self.roots, self.maxdir, ops, self.profile)


def gen_short(rng, cid):
    """server application, small limit: rotation, re-activation and reopen happen within a few steps"""
    roots = rng.choice([1, 1, 2, 2, 3])
    maxdir = rng.choice(LIMITS_SERVER)
    nkeys = rng.choice([2, 4, 6, 12])
    n = rng.choice([15, 30, 45, 70])
    ops, open_tx, nh = [], [], 0
    for _ in range(n):
        x = rng.random()
        if x < 0.55:
            h = rng.choice(open_tx) if open_tx and rng.random() < 0.3 else 0
            ops.append("set %d %d" % (h, rng.randint(1, nkeys)))
        elif x < 0.63:
            h = rng.choice(open_tx) if open_tx and rng.random() < 0.3 else 0
            ops.append("del %d %d" % (h, rng.randint(1, nkeys)))
        elif x < 0.77:
            ops.append("gc")
        elif x < 0.84:
            nh += 1
            open_tx.append(nh)
            ops.append("begin")
        elif x < 0.93:
            if open_tx:
                h = open_tx.pop(rng.randrange(len(open_tx)))
                ops.append(("commit %d" if rng.random() < 0.6 else "rollback %d") % h)
            else:
                ops.append("set 0 %d" % rng.randint(1, nkeys))
        elif x < 0.97:
            ops.append("reopen")
            open_tx = []
        else:
            ops.append("set 0 %d" % rng.randint(1, nkeys))
    return Case(cid, "server", roots, maxdir, ops, "short")


def gen_long(rng, cid):
    """inline client, limit 100 (configured values below 100 are raised): fill past the limit, free entries of
    full directories (delete/overwrite + gc, rollback), write again, reopen, write again"""
    roots = rng.choice([1, 2, 3])
    maxdir = rng.choice([0, 1, 3, 50, 100, 100])
    total = rng.randint(250, 600)
    ops, nk = [], 0
    fill = min(total - 60, rng.randint(105 * roots, 140 * roots))
    for _ in range(fill):
        nk += 1
        ops.append("set 0 %d" % nk)
    written = fill
    nh = 0
    while written < total:
        phase = rng.choice(["free", "free", "tx", "reopen", "burst"])
        if phase == "free":
            for k in rng.sample(range(1, nk + 1), min(nk, rng.randint(5, 60))):
                if rng.random() < 0.5:
                    ops.append("del 0 %d" % k)
                else:
                    ops.append("set 0 %d" % k)
                    written += 1
            ops.append("gc")
        elif phase == "tx":
            ops.append("begin")
            nh += 1
            for _ in range(rng.randint(1, 12)):
                nk += 1
                ops.append("set %d %d" % (nh, nk))
                written += 1
            ops.append(("rollback %d" if rng.random() < 0.5 else "commit %d") % nh)
        elif phase == "reopen":
            ops.append("reopen")
        n = rng.randint(10, 80)
        for _ in range(n):
            nk += 1
            ops.append("set 0 %d" % nk)
            written += 1
    return Case(cid, "inline", roots, maxdir, ops, "long")


def fixed_cases():
    """boundary histories run first"""
    out = []
    # exactly the limit, one more, free one of the full directory, write until it is chosen again
    out.append(Case("fx-limit1", "server", 1, 1, ["set 0 1", "set 0 2", "set 0 1", "gc", "set 0 3", "set 0 4", "reopen", "set 0 5"], "fixed"))
    out.append(Case("fx-limit3", "server", 1, 3, ["set 0 %d" % k for k in (1, 2, 3, 4)] + ["del 0 1", "gc"] + ["set 0 %d" % k for k in range(5, 15)] +
                    ["reopen"] + ["set 0 %d" % k for k in range(15, 20)], "fixed"))
    out.append(Case("fx-3roots", "server", 3, 2, ["set 0 %d" % k for k in range(1, 16)] + ["begin", "set 1 20", "set 1 21", "rollback 1", "gc"] +
                    ["set 0 %d" % k for k in range(1, 8)] + ["gc", "reopen", "gc"] + ["set 0 %d" % k for k in range(30, 36)], "fixed"))
    out.append(Case("fx-inline-clamp", "inline", 1, 3, ["set 0 %d" % k for k in range(1, 103)] + ["del 0 5", "del 0 6", "gc"] +
                    ["set 0 %d" % k for k in range(200, 230)] + ["reopen"] + ["set 0 %d" % k for k in range(300, 310)], "fixed"))
    return out


# --------------------------------------------------------------------------
# running

ROOT_RE = re.compile(r"^R(\d+) counts=(\S+) act=(\S+) ctr=(\S+)$")


def parse_impl(line):
    f = line.split(" | ")
    if len(f) != 5:
        return dict(raw=line, bad="unparsable line")
    st = f[0].split()
    lst = lambda s: [] if s == "-" else s.split(",")
    roots = []
    for part in f[3].split(";"):
        m = ROOT_RE.match(part)
        if not m:
            return dict(raw=line, bad="unparsable roots field")
        counts = [int(x) if x.isdigit() else -1 for x in lst(m.group(2))]
        act = [int(x) for x in lst(m.group(3))]
        ctr = int(m.group(4)) if m.group(4).isdigit() else -1
        roots.append((counts, act, ctr))
    return dict(raw=line, op=st[0], status=" ".join(st[1:]), new=lst(f[1][4:]), freed=lst(f[2][6:]),
                roots_s=f[3], roots=roots, shape=f[4][6:], bad=None)


def model_line(o):
    """the model operation that corresponds to one observed step"""
    if o.get("bad"):
        return "nop"
    if o["op"] == "set":
        if len(o["new"]) == 1 and not o["freed"]:
            return "w %s %s" % tuple(o["new"][0].split(":"))
        if not o["new"] and o["status"] != "ok" and "BAD-HANDLE" not in o["status"]:
            return "w -"
        return "nop"
    if o["op"] == "reopen" and o["status"] == "ok":
        return " ".join(["ro"] + o["freed"])      # core.Load hands superseded versions to the cleaner
    if o["freed"]:
        return "f " + " ".join(o["freed"])
    return "nop"


def run_impl(fsdbh, cases, timeout=600):
    """one harness process for the given cases; returns list of observation lists"""
    lines = []
    for c in cases:
        lines += c.lines()
    out = C.run_lines(fsdbh, "dirs", lines, timeout=timeout)
    res, cur = [], None
    for l in out:
        if l.startswith("case "):
            cur = []
            if "OPEN-FAILED" in l:
                raise C.CheckBroken("harness could not open a database: " + l)
        elif l == "end":
            res.append(cur)
            cur = None
        elif cur is not None:
            cur.append(parse_impl(l))
    if len(res) != len(cases):
        raise C.CheckBroken("fsdbh dirs: %d cases in, %d out" % (len(cases), len(res)))
    for c, r in zip(cases, res):
        if len(r) != len(c.ops):
            raise C.CheckBroken("fsdbh dirs: case %s has %d steps, %d observations" % (c.cid, len(c.ops), len(r)))
    return res


def run_model(cases, obs):
    lines = []
    for c, ob in zip(cases, obs):
        lines.append("case %s roots=%d max=%d" % (c.cid, c.roots, c.limit))
        lines += [model_line(o) for o in ob]
        lines.append("end")
    out = C.run_lines(C.DRIVER, "dirs", lines, timeout=600)
    res, cur = [], None
    for l in out:
        if l.startswith("case "):
            cur = []
        elif l == "end":
            res.append(cur)
            cur = None
        elif cur is not None:
            a, _, r = l.partition(" | ")
            cur.append((a, r))
    if len(res) != len(cases):
        raise C.CheckBroken("driver dirs: %d cases in, %d out" % (len(cases), len(res)))
    return res


# --------------------------------------------------------------------------
# judging one history

def oracle(case, obs):
    """the property evaluated on the implementation's own observations.
    Returns (list of (step, what), stats)."""
    mx = case.limit
    bad = []
    stats = dict(rotations=0, frees=0, reactivations=0, reuse=0, reuse_opportunities=0, writes=0, reopens=0, max_count=0, dirs=0)
    was_full = set()      # directories that reached the limit
    regained = set()      # ... and afterwards lost an entry (still having room)
    prev_ndirs = [0] * case.roots
    first_write_done = False
    for k, o in enumerate(obs):
        if o.get("bad"):
            bad.append((k, "harness line not understood: " + o["bad"]))
            continue
        if "PANIC" in o["status"] or "DRAIN-TIMEOUT" in o["status"]:
            bad.append((k, "step ended with " + o["status"]))
        if o["shape"] != "ok":
            bad.append((k, "placement: an entry is not <configured root>/<uuid>/<uuid regular file>, or an active "
                           "directory is not a directory of a configured root on disk (%s)" % o["shape"]))
        if len(o["roots"]) != case.roots:
            bad.append((k, "number of roots reported differs from the configuration"))
            continue
        for r, (counts, act, ctr) in enumerate(o["roots"]):
            for i, c in enumerate(counts):
                stats["max_count"] = max(stats["max_count"], c)
                if c > mx:
                    bad.append((k, "bounded: directory %d:%d holds %d entries, limit %d" % (r, i, c, mx)))
                if c < 0:
                    bad.append((k, "a directory disappeared from disk (%d:%d)" % (r, i)))
                if c >= mx:
                    was_full.add((r, i))
            if ctr != len(act):
                bad.append((k, "repository invariant: counter of root %d is %d but it has %d active directories" % (r, ctr, len(act))))
            if any(i >= len(counts) for i in act):
                bad.append((k, "repository invariant: active directory of root %d not on disk" % r))
            if len(counts) > prev_ndirs[r]:
                if prev_ndirs[r] > 0:
                    stats["rotations"] += len(counts) - prev_ndirs[r]
                prev_ndirs[r] = len(counts)
        if o["op"] == "reopen":
            stats["reopens"] += 1
        if o["op"] == "set" and "BAD-HANDLE" not in o["status"]:
            if o["status"] != "ok" or len(o["new"]) != 1:
                bad.append((k, "offers: a write did not succeed with exactly one new file (status %r, new %s)" % (o["status"], o["new"])))
            else:
                stats["writes"] += 1
                first_write_done = True
                r, i = map(int, o["new"][0].split(":"))
                before = o["roots"][r][0][i] - 1
                if before >= mx:
                    bad.append((k, "offers/bounded: the write went into %d:%d which already held %d entries (limit %d)" % (r, i, before, mx)))
                if regained:
                    stats["reuse_opportunities"] += 1
                if (r, i) in regained:
                    stats["reuse"] += 1
                    regained.discard((r, i))
                    was_full.discard((r, i))
                for rr, (counts, act, _) in enumerate(o["roots"]):
                    room = [j for j in act if j < len(counts) and counts[j] - (1 if (rr, j) == (r, i) else 0) < mx]
                    if not room:
                        bad.append((k, "offers: root %d had no active directory with room when this write was placed" % rr))
        if o["freed"]:
            stats["frees"] += len(o["freed"])
            for tok in sorted(set(o["freed"])):
                r, i = map(int, tok.split(":"))
                counts, act, _ = o["roots"][r]
                if i not in act:
                    bad.append((k, "reuse: directory %d:%d lost an entry but is not active afterwards" % (r, i)))
                else:
                    stats["reactivations"] += 1
                if (r, i) in was_full and i < len(counts) and counts[i] < mx:
                    regained.add((r, i))
    stats["dirs"] = sum(prev_ndirs)
    return bad, stats


def judge(case, obs, mod):
    """returns dict(oracle=[...], diff=[...], stats)"""
    obad, stats = oracle(case, obs)
    diff = []
    for k, (o, (allowed, roots)) in enumerate(zip(obs, mod)):
        if o.get("bad"):
            continue
        if roots != o["roots_s"]:
            diff.append((k, "after step %d (%s) the tree/repository differs: impl [%s] model [%s]" % (k, case.ops[k], o["roots_s"], roots)))
            break
        if allowed == "allowed=0":
            diff.append((k, "step %d (%s): the implementation wrote into %s which is not a candidate in the model" % (k, case.ops[k], o["new"])))
            break
    return dict(oracle=obad, diff=diff, stats=stats)


def evaluate(fsdbh, cases):
    obs = run_impl(fsdbh, cases)
    mod = run_model(cases, obs)
    return obs, mod, [judge(c, o, m) for c, o, m in zip(cases, obs, mod)]


def trace(case, obs, mod, upto=None):
    out = []
    for k, (o, (a, r)) in enumerate(zip(obs, mod)):
        if upto is not None and k > upto:
            break
        out.append(dict(step=k, op=case.ops[k], impl=o["raw"], model_input=model_line(o), model=(a + " | " + r)))
    return out


def shrink(fsdbh, case, kind, budget_s):
    """ddmin over the operations; the implementation shuffles its candidates, so a sub-history counts as
    failing if one of two runs fails."""
    deadline = time.time() + budget_s

    def fails(ops):
        if time.time() > deadline:
            return False
        c = case.with_ops(ops)
        for _ in range(2):
            try:
                _, _, js = evaluate(fsdbh, [c])
            except C.CheckBroken:
                return False
            if js[0][kind]:
                return True
        return False

    ops = C.ddmin(case.ops, fails)
    return case.with_ops(ops)


def report(rep, fsdbh, case, j, budget_s):
    kind = "oracle" if j["oracle"] else "diff"
    small = shrink(fsdbh, case, kind, budget_s)
    # re-run the shrunk history to record its traces (retry: placement is random)
    obs = mod = js = None
    for _ in range(4):
        obs, mod, js = evaluate(fsdbh, [small])
        if js[0][kind]:
            break
    if not js[0][kind]:
        small = case
        obs, mod, js = evaluate(fsdbh, [small])
    jj = js[0]
    found = jj[kind] or j[kind]
    step = found[0][0]
    payload = dict(
        kind="property-violated-by-implementation" if kind == "oracle" else "correspondence",
        what=[w for _, w in found[:5]],
        case=small.lines(), original_case_ops=len(case.ops), shrunk_ops=len(small.ops),
        mode=small.mode, roots=small.roots, configured_maxdir=small.maxdir, effective_limit=small.limit,
        trace=trace(small, obs[0], mod[0], upto=step)[-40:],
        note="placement among the candidates is random in the implementation (shuffle); the replay re-runs the history "
             "and judges the new observations",
        correspondence="fsdbh dirs (real client/server on a real file system) vs coq/Dirs.v (driver dirs)")
    rep.violation(payload, no_input=(kind == "diff"))


# --------------------------------------------------------------------------
# vm_compute cross-check of the extraction (DESIGN 2.4)

def coq_id(tok):
    r, i = tok.split(":")
    return "(%s,%s)" % (r, i)


def vm_crosscheck(cases, obs, mod, maxn):
    picked = []
    for c, ob, m in zip(cases, obs, mod):
        if len(ob) <= 80 and all(not o.get("bad") and model_line(o) != "w -" for o in ob) and ob:
            picked.append((c, ob, m))
        if len(picked) >= maxn:
            break
    if not picked:
        return 0
    src = ["From Coq Require Import List Arith Bool.", "From FsDb Require Import Dirs.", "Import ListNotations."]
    for n, (c, ob, m) in enumerate(picked):
        ops = []
        for o in ob:
            ml = model_line(o).split()
            if ml[0] == "w":
                ops.append("DAlloc [] (%s,%s)" % (ml[1], ml[2]))
            elif ml[0] == "f":
                ops += ["DFree %s" % coq_id(t) for t in ml[1:]]
            elif ml[0] == "ro":
                ops.append("DReopen")
                ops += ["DFree %s" % coq_id(t) for t in ml[1:]]
        final = m[-1][1]
        disk, acts, ctrs = [], [], []
        for part in final.split(";"):
            mm = ROOT_RE.match(part)
            r = int(mm.group(1))
            disk.append("[" + ";".join([] if mm.group(2) == "-" else mm.group(2).split(",")) + "]")
            acts += ["(%d,%s)" % (r, i) for i in ([] if mm.group(3) == "-" else mm.group(3).split(","))]
            ctrs.append(mm.group(4))
        src.append("Example x%d : let s := dr_run [%s] (dr_init %d %d) in\n  dr_disk s = [%s] /\\ dr_counts s = [%s] /\\ "
                   "length (dr_active s) = %d /\\ forallb (fun d => dr_mem d (dr_active s)) [%s] = true.\n"
                   "Proof. vm_compute. repeat split. Qed." %
                   (n, "; ".join(ops), c.roots, c.limit, "; ".join(disk), "; ".join(ctrs), len(acts), "; ".join(acts)))
    d = tempfile.mkdtemp(prefix="verif-c17-")
    try:
        with open(os.path.join(d, "cases.v"), "w") as f:
            f.write("\n".join(src) + "\n")
        rc, out = C.sh("timeout 300 coqc -Q %s FsDb cases.v" % C.COQ, cwd=d, timeout=320)
        if rc != 0:
            raise C.CheckBroken("vm_compute cross-check: the extracted model and the Coq model disagree (TCB alarm):\n" + out[-3000:])
    finally:
        shutil.rmtree(d, ignore_errors=True)
    return len(picked)


# --------------------------------------------------------------------------

def chunks(cases):
    longs = [[c] for c in cases if c.profile == "long"]
    shorts = [c for c in cases if c.profile != "long"]
    return longs + [shorts[i:i + 12] for i in range(0, len(shorts), 12)]


def nontrivial(stats):
    return stats["rotations"] > 0


def run(rep):
    rng = C.rng_for(rep.seed, "c17")
    proof_ok = C.proof_step(rep, "C17")
    C.ensure_driver()
    fsdbh = C.ensure_harness()
    quick = rep.tier == "quick"
    cases = fixed_cases()
    for i in range(12 if quick else 300):
        cases.append(gen_long(rng, "L%d" % i))
    for i in range(300 if quick else 1500):
        cases.append(gen_short(rng, "S%d" % i))
    groups = chunks(cases)
    results = {}
    with concurrent.futures.ThreadPoolExecutor(max_workers=min(C.NCPU, 16)) as ex:
        futs = {ex.submit(evaluate, fsdbh, g): g for g in groups}
        for f in concurrent.futures.as_completed(futs):
            g = futs[f]
            obs, mod, js = f.result()
            for c, o, m, j in zip(g, obs, mod, js):
                results[c.cid] = (o, m, j)
    agg = dict(rotations=0, frees=0, reactivations=0, reuse=0, reuse_opportunities=0, writes=0, reopens=0, dirs=0)
    dist = dict(mode={}, roots={}, limit={}, ops={})
    distinct, validated, steps, nviol, mismatches, max_seen = set(), 0, 0, 0, 0, {}
    budget = 40 if quick else 300
    best_opp = None
    for c in cases:
        o, m, j = results[c.cid]
        steps += len(o)
        for k in agg:
            agg[k] += j["stats"][k]
        for key, val in (("mode", c.mode), ("roots", str(c.roots)), ("limit", str(c.limit))):
            dist[key][val] = dist[key].get(val, 0) + 1
        for op in c.ops:
            dist["ops"][op.split()[0]] = dist["ops"].get(op.split()[0], 0) + 1
        max_seen[str(c.limit)] = max(max_seen.get(str(c.limit), 0), j["stats"]["max_count"])
        if nontrivial(j["stats"]):
            distinct.add(C.case_hash("\n".join(c.lines()[:1] + c.ops)))
        if not j["diff"]:
            validated += 1
        else:
            mismatches += 1
        if best_opp is None or j["stats"]["reuse_opportunities"] > results[best_opp.cid][2]["stats"]["reuse_opportunities"]:
            best_opp = c
        if (j["oracle"] or j["diff"]) and nviol < 2:
            nviol += 1
            report(rep, fsdbh, c, j, budget)
    # "directories that regain room are used again", measured over the whole run: with several hundred writes
    # placed while a formerly full directory had regained room, none landing there is not chance
    if agg["reuse_opportunities"] >= 200 and agg["reuse"] == 0 and nviol == 0:
        o, m, j = results[best_opp.cid]
        rep.violation(dict(kind="property-violated-by-implementation",
                           what=["reuse: %d writes were placed while a formerly full directory had regained room; none of them "
                                 "went into such a directory" % agg["reuse_opportunities"]],
                           case=best_opp.lines(), trace=trace(best_opp, o, m)[-40:]))
    nvm = vm_crosscheck(cases, [results[c.cid][0] for c in cases], [results[c.cid][1] for c in cases], 25 if quick else 100)
    sample = []
    for c in (cases[1], cases[len(fixed_cases())]):
        o, m, _ = results[c.cid]
        sample.append(dict(case=c.lines()[:12] + (["... (%d operations)" % len(c.ops)] if len(c.ops) > 11 else []),
                           impl_last=o[-1]["raw"], model_last=" | ".join(m[-1])))
    rep.coverage.update(
        evaluations=len(cases), steps=steps, distinct_nontrivial=len(distinct),
        rule="fixed boundary histories, then seeded histories: 'long' = inline client, 1-3 roots, configured limit in "
             "{0,1,3,50,100} (all raised to 100 by Storage.Valid), 250-600 one-byte writes that fill directories past the limit, "
             "delete/overwrite + gc and rollbacks that free entries of full directories, reopen, more writes; 'short' = server "
             "application (no clamp), limit 1-5, 1-3 roots, 15-70 mixed operations (set/del in and outside transactions, "
             "commit/rollback, gc, reopen).  After every step (pool drained) the roots are walked.  distinct = hash of "
             "configuration + operations; non-trivial = at least one rotation observed (a root got a further directory because "
             "one reached the limit)",
        samples=sample, traces_validated_against_impl=validated, impl_vs_model_mismatches=mismatches,
        configurations=dist, rotations_observed=agg["rotations"], entries_freed=agg["frees"],
        reactivations_observed=agg["reactivations"], reused_directories=agg["reuse"],
        writes_while_a_formerly_full_directory_had_room=agg["reuse_opportunities"], writes=agg["writes"],
        reopens=agg["reopens"], directories_created=agg["dirs"], largest_directory_seen_by_limit=max_seen,
        vm_compute_crosschecked_histories=nvm, proof_ok=proof_ok)
    # a configuration change between two openings: written with n roots, reopened with only the first `keep`; keys are
    # deleted and collected (the cleaner re-activates the directory of a deleted content, also one of a dropped root);
    # every NEW content must still lie in <configured root>/<uuid>/<uuid> (oracle on the tree; no model)
    rrng = C.rng_for(rep.seed, "c17-rootchange")
    nrc = 6 if rep.tier == "quick" else 60
    rcases = []
    for i in range(nrc):
        nroots = rrng.choice([2, 2, 3])
        keep = rrng.randint(1, nroots - 1)
        rcases.append("rc%d %d %d %d %d %d %d %s" % (i, rrng.randrange(10**6), nroots, keep, rrng.choice([20, 40, 60]), rrng.choice([5, 15, 20]),
                                                      rrng.choice([30, 60]), rrng.choice(["inline", "inline", "server"])))
    rout = C.run_lines(fsdbh, "rootchange", rcases, timeout=600)
    rbad = 0
    for c, o in zip(rcases, rout):
        if " ok " not in o + " ":
            rbad += 1
            if rbad <= 2:
                rep.violation(dict(kind="oracle", what="after reopening with fewer roots a new content was created outside the configured roots "
                                   "(or not as <root>/<uuid>/<uuid>): " + o, case=c, impl=o,
                                   note="case = id seed roots kept writes-before deletes writes-after mode (fsdbh rootchange)"))
    rep.coverage["root_list_changed_between_openings"] = dict(cases=len(rcases), violations=rbad, sample=rout[:2])
    rep.assumptions = [
        "sequential histories (one operation at a time, worker pool drained before the tree is inspected)",
        "configured roots are distinct after path cleaning; nothing but fs_db writes under the roots; uuid names are fresh",
        "the free-space filter and the shuffle of store.Set are abstracted: the chosen directory is an input of the model "
        "(any active directory), so ENOSPC continuation is covered by the theorems (DAlloc spill c) but not by the execution tie",
        "the order in which Go iterates the repository's map is not modelled; observations are order-free (sorted)",
    ]


def replay(rep, path):
    p = json.load(open(path))
    fsdbh = C.ensure_harness()
    C.ensure_driver()
    hdr = p["case"][0].split()
    kv = dict(t.split("=") for t in hdr[2:])
    c = Case(hdr[1], kv["mode"], int(kv["roots"]), int(kv["maxdir"]), p["case"][1:-1], "replay")
    worst = None
    for _ in range(3):          # placement is random: a few runs
        obs, mod, js = evaluate(fsdbh, [c])
        worst = (obs, mod, js[0])
        if js[0]["oracle"] or js[0]["diff"]:
            break
    obs, mod, j = worst
    print(c.header())
    for t in trace(c, obs[0], mod[0]):
        print("%3d %-12s impl : %s" % (t["step"], t["op"], t["impl"]))
        print("%3s %-12s model: %s   (input: %s)" % ("", "", t["model"], t["model_input"]))
    for k, w in j["oracle"][:10]:
        print("PROPERTY step %d: %s" % (k, w))
    for k, w in j["diff"][:10]:
        print("DIFF %s" % w)
    return 1 if (j["oracle"] or j["diff"]) else 0
