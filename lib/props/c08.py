"""C08 — consistent, stable snapshots under concurrency (Begin racing with multi-key Commit and with GC)."""
import json

from lib import common as C
from lib import lockskel as LS
from lib import histcheck as H
from lib import histprops as P
from lib import parcheck as PC


def witness_verdict(case, out):
    """findings D9/D10 on the scripted schedules of corpus/conc_witnesses.txt"""
    cid = case.split("\n")[0].split()[1]
    ops = [l for l in case.split("\n") if not l.startswith("keytab")]
    res = dict(zip(range(len(ops)), out))
    if any(r in ("AWAIT-TIMEOUT", "WAIT-TIMEOUT") or r.startswith("PANIC") for r in out):
        return "broken", "scripted schedule did not run as scripted: %s" % out
    if cid == "d9":
        r1, r2 = out[ops.index("get 2 1 g")], out[ops.index("get 2 2 g")]
        new1 = r1 == out[ops.index("get 0 1 g")]
        new2 = r2 == out[ops.index("get 0 2 g")]
        if new1 != new2:
            return "D9", "snapshot sees key 1 %s and key 2 %s of one commit" % ("new" if new1 else "old", "new" if new2 else "old")
        return "ok", None
    if cid == "d10":
        r = out[ops.index("get 1 1 g")]
        if not r.startswith("val "):
            return "D10", "snapshot read of a key that had a value throughout returned %s" % r
        return "ok", None
    return "ok", None


def masked(case, out, handle):
    ops = [l for l in case.split("\n") if not l.startswith("keytab")]
    return [("*" if (l.split()[0] in ("get", "keys") and l.split()[1] == str(handle)) else r) for l, r in zip(ops, out)]


def explained_by_known(case, out, kind):
    """narrow signatures of D9/D10 for an un-paused race: ONLY the reads of the snapshot begun inside the concurrent group
    (handle 3) deviate from a sequential order, every other result and the final state match it, and those reads take, per
    key, a value that some sequential order gives (D9: mixed old/new of one commit) or are NotFound / a later value (D10)"""
    if "begin" not in kind:
        return None
    alts = PC.all_sequential_outputs(case)
    m = masked(case, out, 3)
    cands = [a for a in alts if masked(case, a, 3) == m]
    if not cands:
        return None
    ops = [l for l in case.split("\n") if not l.startswith("keytab")]
    idx = [i for i, l in enumerate(ops) if l.split()[0] in ("get", "keys") and l.split()[1] == "3"]
    per_op_ok = all(any(a[i] == out[i] for a in alts) for i in idx)
    if "commit" in kind and per_op_ok:
        return "D9"
    if "gc" in kind and all(out[i] == "err NotFound" or out[i].startswith(("val ", "keys")) for i in idx):
        return "D10"
    return None


def gen_case(rng, cid):
    nkeys = rng.randint(2, 3)
    keys = sorted(rng.sample([b"a", b"b", b"c", b"d"], nkeys)) + [b"e"]      # the last key is created only after the snapshots
    ls = ["case %s roots=1" % cid, "keytab " + " ".join(k.hex() for k in keys)]
    v = 0
    for k in range(1, nkeys + 1):
        v += 1
        ls.append("set 0 %d %d 3 s" % (k, v))
    ls.append("begin RC")                      # handle 1: the multi-key committer
    for k in range(1, nkeys + 1):
        v += 1
        ls.append("set 1 %d %d 4 s" % (k, v))
    ls.append("begin " + rng.choice(["RR", "SER"]))   # handle 2: an older snapshot reader
    kind = rng.choice(["begin-commit", "begin-gc", "commit-gc", "begin-set", "begin-commit-gc"])
    v += 1
    groups = {"begin-commit": ["begin RR", "commit 1"], "begin-gc": ["begin SER", "gc"], "commit-gc": ["commit 1", "gc"],
              "begin-set": ["begin RR", "set 0 1 %d 5 s" % v], "begin-commit-gc": ["begin RR", "commit 1", "gc"]}[kind]
    rng.shuffle(groups)
    ls.append("par " + " || ".join(groups))
    probe = []
    for h in ((2, 3) if "begin" in kind else (2,)):      # handle 3 exists only if the group contains a Begin
        probe += ["get %d %d g" % (h, k) for k in range(1, nkeys + 2)] + ["keys %d" % h]
    probe += ["get 0 %d g" % k for k in range(1, nkeys + 2)] + ["keys 0"]
    # re-read after more activity (an overwrite, a new key, a deletion, a collection): repeatable, in Get and in GetKeys
    v += 2
    ls += probe + ["set 0 1 %d 6 s" % (v - 1), "set 0 %d %d 2 s" % (nkeys + 1, v), "del 0 2", "gc"] + probe
    ls.append("end")
    return "\n".join(ls), kind


def gen_deep_case(rng, cid):
    """sequential: one key with several committed versions, snapshots begun at different points of its history, collection
    passes while they are open, after the oldest ended and after further overwrites; every snapshot re-reads both keys
    and lists the keys after each step (a snapshot is stable: the answers of one handle never change)"""
    ls = ["case %s roots=1" % cid, "keytab 61 62"]
    st = dict(v=0)

    def ow():
        st["v"] += 1
        ls.append("set 0 1 %d 3 s" % st["v"])
    for _ in range(rng.randint(1, 3)):
        ow()
    handles = [1]
    ls.append("begin " + rng.choice(["RR", "SER"]))
    for _ in range(rng.randint(1, 3)):
        ow()
    st["v"] += 1
    ls.append("set 0 2 %d 3 s" % st["v"])
    if rng.random() < 0.6:
        ls.append("gc")
    handles.append(2)
    ls.append("begin " + rng.choice(["RR", "SER"]))

    def probe():
        return ["get %d %d g" % (h, k) for h in handles for k in (1, 2)] + ["keys %d" % h for h in handles]
    ls += probe()
    for _ in range(rng.randint(1, 3)):
        ow()
    ls += ["gc"] + probe()
    ls.append(rng.choice(["commit %d", "rollback %d"]) % handles.pop(0))
    ls += ["gc"] + probe()
    ow()
    ls += ["gc"] + probe() + ["end"]
    return "\n".join(ls)


def run_deep(rep, fsdbh, rng):
    n = 60 if rep.tier == "quick" else 1500
    cases = [gen_deep_case(rng, "d%d" % i) for i in range(n)]
    impl = H.run_sharded(fsdbh, "hist", cases)
    mouts = H.run_model("hist", cases)
    souts = H.run_model("hist-spec", cases)
    bad = 0
    for c, o, m, sp in zip(cases, impl, mouts, souts):
        m, sp = H.canon(c, m), H.canon(c, sp)
        ops = [l for l in c.split("\n") if not l.startswith("keytab")]
        problems = []
        # stability on the implementation's own answers: one handle, one key -> one answer for as long as the handle lives
        seen = {}
        for l, r in zip(ops, o):
            t = l.split()
            if t[0] in ("get", "keys") and t[1] != "0":
                key = (t[0], t[1], t[2] if t[0] == "get" else "")
                if key in seen and seen[key] != r:
                    problems.append("snapshot handle %s: %s answered %s, later %s" % (t[1], l, seen[key], r))
                seen.setdefault(key, r)
        if o != sp or o != m:
            d = H.first_diff(o, sp if o != sp else m)
            problems.append("implementation and %s differ at step %s" % ("specification" if o != sp else "model",
                                                                         ops[d] if d is not None and d < len(ops) else d))
        if problems:
            bad += 1
            if bad <= 2:
                rep.violation(dict(kind="oracle", what="a snapshot is not stable across collection passes over a key with several "
                                   "committed versions: " + "; ".join(problems[:2]), case=c, impl=o, spec=sp))
    rep.coverage["deep_version_histories"] = dict(cases=n, violations=bad,
                                                  rule="sequential; 2-6 committed versions of one key around two snapshot Begins, "
                                                       "collection while both are open / after the older ended / after another overwrite; "
                                                       "every handle re-reads both keys and GetKeys after each step")


def run(rep):
    rng = C.rng_for(rep.seed, "c08")
    proof_ok = C.proof_step(rep, "C08")
    C.ensure_driver()
    fsdbh = C.ensure_harness()
    sk = LS.check(rep, fsdbh, ["Store", "UpdateTx", "Get", "GetFiles"])      # snapshot look-ups run under the store's lock
    known = {f["id"]: f for f in C.known_findings("C08") if f.get("status") == "open"}
    # 1. scripted witnesses
    wit = [c for c in P.corpus("conc_witnesses.txt") if c.split("\n")[0].split()[1] in ("d9", "d10")]
    wout = H.run_sharded(fsdbh, "hist", wit, shards=1)
    reproduced = {}
    for c, o in zip(wit, wout):
        verdict, why = witness_verdict(c, o)
        if verdict == "broken":
            raise C.CheckBroken(why)
        if verdict in known:
            reproduced[verdict] = why
            rep.known_finding("%s: %s (scripted schedule reproduced: %s)" % (verdict, known[verdict]["what"], why))
        elif verdict != "ok":
            rep.violation(dict(kind="oracle", what=why, case=c, impl=o))
    # 1b. sequential histories with deep version lists and collection passes (stability of each handle's answers)
    run_deep(rep, fsdbh, C.rng_for(rep.seed, "c08-deep"))
    # 2. generated races under the real scheduler
    n = 500 if rep.tier == "quick" else 4000
    if LS.broken(sk):
        n = max(n, 800)
    gen = [gen_case(rng, "s%d" % i) for i in range(n)]
    cases = [g[0] for g in gen]
    cases = [c for c in cases]
    impl = H.run_sharded(fsdbh, "hist", cases, timeout=150 if rep.tier == "quick" else 900)
    orders, unmatched, kinds = {}, 0, {}
    for (c, kind), o in zip(gen, impl):
        kinds[kind] = kinds.get(kind, 0) + 1
        if any(l.startswith("PANIC") for l in o):
            rep.violation(dict(kind="oracle", what="panic", case=c, impl=o))
            continue
        perm = PC.match_sequential(c, o)
        if perm is None:
            unmatched += 1
            sig = explained_by_known(c, o, kind)
            if sig in known:
                rep.known_finding("%s: %s (hit by an un-paused race: case %s)" % (sig, known[sig]["what"], c.split("\n")[0]))
            else:
                rep.violation(dict(kind="oracle", what="the outcome of the concurrent group equals no sequential order: a snapshot "
                                   "is not one consistent, stable view", case=c, impl=o, race=kind))
        else:
            orders[str(perm)] = orders.get(str(perm), 0) + 1
    rep.coverage.update(
        evaluations=len(cases) + len(wit), distinct_nontrivial=len({C.case_hash(c) for c in cases}),
        rule="(1) scripted schedules through pause points commit.afterSeq / txrepo.store.enter (the witnesses of "
             "C08_fractured_refuted and C08_gc_horizon_refuted); (2) seeded programs: a 2-3-key committer, an older snapshot reader, "
             "and a concurrent group (Begin || Commit, Begin || GC, Commit || GC, Begin || autocommit Set, Begin || Commit || GC) "
             "run under the real scheduler, then all snapshot readers read all keys twice with more writes and a collection in "
             "between; the whole outcome must equal ONE sequential order of the group in the model (atomic Begin/Commit/GC)",
        race_kinds=kinds, sequential_orders_observed=orders, unmatched=unmatched, witnesses_reproduced=reproduced,
        traces_validated_against_impl=len(cases) + len(wit),
        samples=[dict(case=wit[0].split("\n"), impl=wout[0]), dict(case=cases[0].split("\n"), impl=impl[0])],
        refuted_theorems=["C08_fractured_refuted", "C08_gc_horizon_refuted"], proof_ok=proof_ok)
    LS.conclude(rep, sk, 'sequence numbers drawn inside the critical section that publishes the version: C08_needs_held')
    rep.assumptions = ["the theorems C08_repeatable / C08_snapshot_is_one_state assume atomic Begin, Commit and collection; the code's "
                       "Begin is NOT atomic w.r.t. a multi-key publication and the collector: known findings D9, D10",
                       "un-paused races are explored by the Go scheduler only (support); the scripted schedules are deterministic"]


def replay(rep, path):
    p = json.load(open(path))
    fsdbh = C.ensure_harness()
    o = H.run_sharded(fsdbh, "hist", [p["case"]], shards=1)[0]
    print(p["case"]); print(o)
    return 0
