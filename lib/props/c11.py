"""C11 — the gRPC client is indistinguishable from the inline client.

This revision: section `errmap` = error-class / isolation-level mapping
(DESIGN.md C11 part (a)).  `run` calls one function per section so that the
stream and history sections can be added next to `run_errmap`.
"""
import itertools
import json
import os
import shutil
import tempfile

from lib import common as C

SENTINELS = ["ErrUnknown", "ErrNoFreeSpace", "ErrNotFound", "ErrEmptyKey", "ErrHeaderNotFound",
             "ErrTxNotFound", "ErrTxAlreadyExists", "ErrTxSerialization", "ErrEmptyDbPath", "ErrEmptyRootDirs"]
CONFIG = {"ErrEmptyDbPath", "ErrEmptyRootDirs"}
EXPORTED = [s for s in SENTINELS if s not in CONFIG]            # the eight classes a caller tests for
SPECIFIC = [s for s in EXPORTED if s != "ErrUnknown"]           # … without the catch-all
GEN_FILES = ["errors.go", "db.go", "internal/proto/error.pb.go", "internal/proto/store_service.pb.go",
             "internal/adapter/errors/error.go", "internal/adapter/iso_level/convert.go"]
DEFAULT_LEVEL = 1                                               # IsoLevelDefault = ReadCommitted


# ---------------------------------------------------------------------------
# error trees: ("L", name) | ("O",) | ("W", t) | ("J", [t…])

def show(t):
    k = t[0]
    if k == "L":
        return "L" + t[1]
    if k == "O":
        return "O"
    if k == "W":
        return "W " + show(t[1])
    return "J%d %s" % (len(t[1]), " ".join(show(x) for x in t[1]))


def parse(toks, i=0):
    t = toks[i]
    if t[0] == "L":
        return ("L", t[1:]), i + 1
    if t == "O":
        return ("O",), i + 1
    if t == "W":
        k, j = parse(toks, i + 1)
        return ("W", k), j
    if t[0] == "J":
        n, ks, j = int(t[1:]), [], i + 1
        for _ in range(n):
            k, j = parse(toks, j)
            ks.append(k)
        return ("J", ks), j
    raise ValueError("bad token " + t)


def leaves(t):
    k = t[0]
    if k == "L":
        return [t[1]]
    if k == "O":
        return []
    if k == "W":
        return leaves(t[1])
    return [s for x in t[1] for s in leaves(x)]


def depth(t):
    k = t[0]
    if k in "LO":
        return 0
    if k == "W":
        return 1 + depth(t[1])
    return 1 + max(depth(x) for x in t[1])


def coq_tree(t):
    k = t[0]
    if k == "L":
        return "Leaf " + t[1]
    if k == "O":
        return "Other"
    if k == "W":
        return "Wrap (%s)" % coq_tree(t[1])
    return "Join [%s]" % "; ".join(coq_tree(x) for x in t[1])


def L(s):
    return ("L", s)


OTHER = ("O",)
WRAPPINGS = [
    ("bare", lambda x: x),
    ("wrap", lambda x: ("W", x)),
    ("wrap.wrap", lambda x: ("W", ("W", x))),
    ("join[x]", lambda x: ("J", [x])),
    ("join[other,x]", lambda x: ("J", [OTHER, x])),
    ("join[x,other]", lambda x: ("J", [x, OTHER])),
    ("wrap(join[other,wrap x])", lambda x: ("W", ("J", [OTHER, ("W", x)]))),
]


def exhaustive_trees():
    out = []
    for s in SENTINELS:
        for _, w in WRAPPINGS:
            out.append(w(L(s)))
    for _, w in WRAPPINGS:
        out.append(w(OTHER))
    # every ordered pair of sentinels joined: the order decides which class wins
    for a in SENTINELS:
        for b in SENTINELS:
            out.append(("J", [L(a), L(b)]))
            out.append(("W", ("J", [("W", L(a)), L(b)])))
    # every ordered triple of the eight exported classes
    for a, b, c in itertools.product(EXPORTED, repeat=3):
        out.append(("J", [L(a), L(b), L(c)]))
    return out


def random_tree(rng, d):
    x = rng.random()
    if d == 0 or x < 0.12:
        y = rng.random()
        if y < 0.12:
            return OTHER
        if y < 0.80:
            return L(rng.choice(SPECIFIC))
        if y < 0.92:
            return L("ErrUnknown")
        return L(rng.choice(sorted(CONFIG)))
    if x < 0.50:
        return ("W", random_tree(rng, d - 1))
    n = rng.choice([1, 2, 2, 2, 3, 3, 4])
    return ("J", [random_tree(rng, d - 1 if rng.random() < 0.7 else rng.randrange(0, d)) for _ in range(n)])


def gen_cases(rng, tier):
    """returns (cases, n_exhaustive_e)"""
    cases = []
    ex = exhaustive_trees()
    for i, t in enumerate(ex):
        cases.append("x%d e %s" % (i, show(t)))
    n = 500 if tier == "quick" else 5000
    for i in range(n):
        cases.append("r%d e %s" % (i, show(random_tree(rng, rng.choice([1, 2, 3, 4, 5, 6, 6])))))
    # the client alone: every status code x {no detail, every declared detail number, undeclared numbers}
    j = 0
    for c in list(range(1, 17)) + [17, 99]:
        for d in ["-", 0, 1, 2, 3, 4, 100, 101, 102, 5, 99]:
            cases.append("w%d w %d %s" % (j, c, d))
            j += 1
    for n in range(0, 256):
        cases.append("l%d l %d" % (n, n))
    for k, n in enumerate(list(range(-3, 40)) + [127, 128, 255, 256, 300, 2**31 - 1, -2**31]):
        cases.append("p%d p %d" % (k, n))
    return cases, len(ex)


def nontrivial(case):
    """an error tree with at least one sentinel under at least one Wrap/Join"""
    t = case.split()
    if t[1] != "e":
        return False
    tree, _ = parse(t[2:])
    return depth(tree) >= 1 and len(leaves(tree)) >= 1


# ---------------------------------------------------------------------------
# the property, evaluated on the implementation's own output

def kv(tok):
    k, v = tok.split("=", 1)
    return [] if v == "-" else v.split(",")


def server_codes(cases, impl):
    """status code number -> sentinel, as the real Error chooses it for the bare sentinels (observed)"""
    num = {n: i for i, n in enumerate(["OK", "Canceled", "Unknown", "InvalidArgument", "DeadlineExceeded", "NotFound",
                                       "AlreadyExists", "PermissionDenied", "ResourceExhausted", "FailedPrecondition",
                                       "Aborted", "OutOfRange", "Unimplemented", "Internal", "Unavailable", "DataLoss",
                                       "Unauthenticated"])}
    res, default = {}, None
    for c, o in zip(cases, impl):
        t, a = c.split(), o.split()
        if t[1] == "e" and t[2:] == ["O"] and len(a) == 7:
            default = a[2]          # the code of an error without any class
    for c, o in zip(cases, impl):
        t, a = c.split(), o.split()
        if t[1] == "e" and len(t) == 3 and t[2][0] == "L" and t[2][1:] in SPECIFIC and len(a) == 7:
            if a[2] != default:
                res.setdefault(num.get(a[2], -1), t[2][1:])
    return res


def oracle(case, impl, by_code=None):
    """returns None or a short description of what the property forbids"""
    c, o = case.split(), impl.split()
    if len(o) < 2 or o[0] != c[0] or o[1] != c[1]:
        return "implementation did not answer the case: %r" % impl
    if c[1] == "e":
        if len(o) != 7:
            return "malformed answer %r" % impl
        tree, _ = parse(c[2:])
        have = set(leaves(tree))
        want_in = [s for s in SENTINELS if s in have]
        got_in, full, conly = kv(o[4]), kv(o[5]), kv(o[6])
        if got_in != want_in:
            return "errors.Is on the server-side value reports %s, the tree contains %s" % (got_in, want_in)
        spec = [s for s in SPECIFIC if s in have]
        if len(full) != 1:
            return "client-side error matches %d exported sentinels %s (exactly one expected)" % (len(full), full)
        if spec and full[0] not in spec:
            return "client-side class %s is not a class of the server-side error (its classes: %s)" % (full[0], spec)
        if not spec and full[0] != "ErrUnknown":
            return "error without a specific class arrives as %s (ErrUnknown expected)" % full[0]
        if len(conly) != 1:
            return "by status code alone the client matches %s (exactly one expected)" % conly
        if full[0] != "ErrHeaderNotFound":
            if conly != full:
                return "status code %s leads to %s but the detail %s leads to %s" % (o[2], conly[0], o[3], full[0])
        else:
            rest = [s for s in spec if s != "ErrHeaderNotFound"]
            if (rest and conly[0] not in rest) or (not rest and conly[0] != "ErrUnknown"):
                return "status code %s leads to %s for an ErrHeaderNotFound error with other classes %s" % (o[2], conly[0], rest)
        return None
    if c[1] == "w":
        cl = kv("x=" + o[2]) if len(o) == 3 else None
        if cl is None or len(cl) != 1:
            return "client-side error for status %s/%s matches %s (exactly one exported sentinel expected)" % (c[2], c[3], cl)
        names = {0: "ErrUnknown", 1: "ErrNoFreeSpace", 2: "ErrNotFound", 3: "ErrEmptyKey", 4: "ErrHeaderNotFound",
                 100: "ErrTxNotFound", 101: "ErrTxAlreadyExists", 102: "ErrTxSerialization"}
        if c[3] != "-" and int(c[3]) in names:
            if cl[0] != names[int(c[3])]:
                return "detail code %s (%s) is turned into %s" % (c[3], names[int(c[3])], cl[0])
        elif by_code is not None:
            want = by_code.get(int(c[2]), "ErrUnknown")
            if cl[0] != want:
                return ("a status with code %s and no usable detail is read as %s; the server sends that code for %s"
                        % (c[2], cl[0], want if int(c[2]) in by_code else "no class (ErrUnknown expected)"))
        return None
    if c[1] == "l":
        n = int(c[2])
        want = n if n <= 3 else DEFAULT_LEVEL
        if o[2:] != [str(want), str(want)]:
            return "level %d -> grpc %s -> back %s (expected %d both)" % (n, o[2], o[3], want)
        return None
    if c[1] == "p":
        n = int(c[2])
        want = n if 0 <= n <= 3 else DEFAULT_LEVEL
        if o[2:] != [str(want), str(want)]:
            return "grpc level %d -> %s -> grpc %s (expected %d both)" % (n, o[2], o[3], want)
        return None
    return None


# ---------------------------------------------------------------------------
# the translator-tied tables and the tree (shared or scratch) the check runs in

class Tree:
    """where coq/ and the driver live for this run: the shared /verif tree when the
    regenerated tables equal the committed coq/ErrMapGen.v, a private scratch copy otherwise
    (so other checks never see a half-built or failing coq/)."""

    def __init__(self):
        self.scratch = None
        self.saved = None
        self.gen_status = "same"        # same | changed | untranslatable
        self.gen_error = ""
        self.model = True               # extracted model available
        self.proof_built = True         # ErrMapProofs.v + Properties/C11.v compile
        self.build_output = ""

    def close(self):
        if self.saved:
            C.COQ, C.OCAML, C.DRIVER = self.saved
            self.saved = None
        if self.scratch:
            shutil.rmtree(self.scratch, ignore_errors=True)
            self.scratch = None


def regenerate(fsdbh):
    rc, out, err = C.sh2([fsdbh, "gen-errmap", C.REPO], timeout=120)
    if rc != 0:
        return None, (err or out).strip()
    return out, ""


def prepare(fsdbh):
    tr = Tree()
    gen, err = regenerate(fsdbh)
    committed = open(os.path.join(C.COQ, "ErrMapGen.v")).read()
    if gen is None:
        tr.gen_status, tr.gen_error = "untranslatable", err
        return tr            # theorems about the committed tables say nothing about this source
    if gen == committed:
        return tr
    tr.gen_status = "changed"
    C.ensure_coq()
    tr.scratch = tempfile.mkdtemp(prefix="verif-c11-")
    with C.Lock("coq"):
        shutil.copytree(C.COQ, os.path.join(tr.scratch, "coq"), copy_function=shutil.copy2)
    os.makedirs(os.path.join(tr.scratch, "ocaml"))
    for f in ("driver.ml", "build.sh"):
        shutil.copy2(os.path.join(C.OCAML, f), os.path.join(tr.scratch, "ocaml", f))
    tr.saved = (C.COQ, C.OCAML, C.DRIVER)
    C.COQ = os.path.join(tr.scratch, "coq")
    C.OCAML = os.path.join(tr.scratch, "ocaml")
    C.DRIVER = os.path.join(C.OCAML, "gen", "driver")
    with open(os.path.join(C.COQ, "ErrMapGen.v"), "w") as f:
        f.write(gen)
    # the model needs only the tables to type-check; the theorems need the proofs to go through
    outs = []
    for vf, what in (("ErrMapGen.v", "model"), ("ErrMapInst.v", "model"),
                     ("ErrMapProofs.v", "proof"), ("Properties/C11.v", "proof")):
        rc, out = C.sh("timeout 900 coqc -Q . FsDb %s" % vf, cwd=C.COQ, timeout=950)
        if rc != 0:
            outs.append("coqc %s:\n%s" % (vf, out[-3000:]))
            if what == "model":
                tr.model = False
            tr.proof_built = False
            break
    tr.build_output = "\n".join(outs)
    if tr.model:
        rc, out = C.sh("timeout 600 ./build.sh", cwd=C.OCAML, timeout=650)
        if rc != 0:
            raise C.CheckBroken("ocaml driver build failed in scratch tree:\n" + out[-3000:])
    return tr


def gen_diff(tr):
    """the table lines that differ from the committed ErrMapGen.v (for the replay file)"""
    if tr.gen_status != "changed":
        return []
    import difflib
    a = open(os.path.join(tr.saved[0], "ErrMapGen.v")).read().splitlines()
    b = open(os.path.join(C.COQ, "ErrMapGen.v")).read().splitlines()
    return [l for l in difflib.unified_diff(a, b, "committed", "regenerated", lineterm="", n=0)][:60]


def vm_crosscheck(cases, model_out):
    """evaluate the same model inside coqc (vm_compute) and require the extracted run's answers"""
    def set_term(tok):
        return "[%s]" % "; ".join(kv(tok))

    def code_term(s):
        return "codes_" + s

    def detail_term(s):
        return "None" if s == "none" else "Some ErrorCode_" + s
    rows = []
    for c, o in zip(cases, model_out):
        tree, _ = parse(c.split()[2:])
        t = o.split()
        rows.append("(%s, (%s, %s, %s, %s, %s))" % (coq_tree(tree), code_term(t[2]), detail_term(t[3]),
                                                    set_term(t[4]), set_term(t[5]), set_term(t[6])))
    d = tempfile.mkdtemp(prefix="verif-c11vm-")
    try:
        src = ("From Coq Require Import List.\nFrom FsDb Require Import ErrMap ErrMapGen ErrMapInst.\nImport ListNotations.\n"
               "Definition obs (e : errv) := let r := errmap_run_err e in\n"
               "  (er_code r, er_detail r, er_in r, er_full r, er_codeonly r).\n"
               "Definition cases := [\n  %s\n].\n"
               "Example vm_agrees : map (fun p => obs (fst p)) cases = map snd cases.\n"
               "Proof. vm_compute. reflexivity. Qed.\n" % ";\n  ".join(rows))
        with open(os.path.join(d, "cases.v"), "w") as f:
            f.write(src)
        rc, out = C.sh("timeout 600 coqc -Q %s FsDb cases.v" % C.COQ, cwd=d, timeout=650)
        if rc != 0:
            raise C.CheckBroken("extracted model and vm_compute disagree, or cases.v does not compile (TCB alarm):\n" + out[-3000:])
        return len(rows)
    finally:
        shutil.rmtree(d, ignore_errors=True)


# ---------------------------------------------------------------------------

def run_errmap(rep, fsdbh):
    rng = C.rng_for(rep.seed, "c11-errmap")
    tr = prepare(fsdbh)
    try:
        return _run_errmap(rep, fsdbh, tr, rng)
    finally:
        tr.close()


def _run_errmap(rep, fsdbh, tr, rng):
    proof_ok = False
    if tr.gen_status == "untranslatable":
        # the source has a shape the translator does not know: nothing is proved about it
        r = C.check_property_file("C11")      # committed tables: still counts the obligations
        rep.coverage.update(obligations=max(1, len(r.get("theorems", []))), discharged=0,
                            checker_cmd="fsdbh gen-errmap %s (failed) — theorems of coq/Properties/C11.v do not apply" % C.REPO)
    elif tr.proof_built:
        proof_ok = C.proof_step(rep, "C11")   # shared tree, or the scratch tree with the regenerated tables
    else:
        r0 = C.strip_comments(open(os.path.join(C.COQ, "Properties", "C11.v")).read())
        import re
        nthm = len(re.findall(r"\b(?:Theorem|Corollary)\s+([A-Za-z0-9_']+)", r0))
        rep.coverage.update(obligations=max(1, nthm), discharged=0,
                            checker_cmd="fsdbh gen-errmap && coqc -Q . FsDb ErrMapGen.v ErrMapInst.v ErrMapProofs.v Properties/C11.v (regenerated tables)")
    if tr.gen_status == "same":
        C.ensure_driver()
    have_model = tr.model and tr.gen_status != "untranslatable"

    cases, n_ex = gen_cases(rng, rep.tier)
    impl = C.run_lines(fsdbh, "errmap", cases)
    alias = C.run_lines(fsdbh, "errmap", ["al a"])
    if len(impl) != len(cases):
        raise C.CheckBroken("fsdbh errmap: %d answers for %d cases" % (len(impl), len(cases)))
    model = None
    if have_model:
        model = C.run_lines(C.DRIVER, "errmap", cases)
        if len(model) != len(cases):
            raise C.CheckBroken("driver errmap: %d answers for %d cases" % (len(model), len(cases)))

    broken_context = {}
    if tr.gen_status != "same":
        broken_context = dict(tables=tr.gen_status, translator_error=tr.gen_error,
                              table_diff=gen_diff(tr), coqc_output=tr.build_output[-4000:])

    # (2) the property on the implementation's own answers
    reported = 0
    oracle_bad = []
    by_code = server_codes(cases, impl)
    for k, c in enumerate(cases):
        why = oracle(c, impl[k], by_code)
        if why:
            oracle_bad.append(k)
            if reported < 3:
                reported += 1
                payload = dict(kind="property", section="errmap", case=c, impl=impl[k], what=why,
                               model=model[k] if model else None)
                if c.split()[1] == "e":
                    tree, _ = parse(c.split()[2:])
                    payload.update(tree=coq_tree(tree), server_side_classes=[s for s in SENTINELS if s in set(leaves(tree))],
                                   observed_classes=kv(impl[k].split()[5]) if len(impl[k].split()) == 7 else None,
                                   observed_by_code_alone=kv(impl[k].split()[6]) if len(impl[k].split()) == 7 else None)
                payload.update(broken_context)
                rep.violation(payload)
    if alias != ["al a ok"]:
        rep.violation(dict(kind="property", section="errmap", case="al a", impl=alias[0] if alias else "",
                           what="a backward-compatibility name is no longer the same value as its sentinel"))
        oracle_bad.append(-1)
    # (1) impl = model
    mism = []
    if model:
        mism = [k for k in range(len(cases)) if impl[k] != model[k]]
        for k in mism[:3]:
            if k in oracle_bad:
                continue
            rep.violation(dict(kind="correspondence", section="errmap",
                               correspondence="fsdbh errmap (adapter/errors, adapter/iso_level) vs coq/ErrMap.v + generated tables",
                               case=cases[k], impl=impl[k], model=model[k],
                               what="the real code and the model (with tables generated from the same source) differ", **broken_context))
    # a broken proof / translator with no failing input found
    if not proof_ok and not oracle_bad and not mism:
        if tr.gen_status == "untranslatable":
            rep.violation(dict(kind="correspondence-broken", section="errmap",
                               what="the translator cannot read the switch tables any more; the theorems are not tied to this source",
                               searched="%d cases on the real code, none violates the property" % len(cases), **broken_context), no_input=True)
        elif not tr.proof_built:
            rep.violation(dict(kind="proof-broken", section="errmap", theorem_file="coq/Properties/C11.v",
                               what="the regenerated tables no longer satisfy the fixed theorems (or do not type-check)",
                               searched="%d cases on the real code, none violates the property" % len(cases), **broken_context), no_input=True)
        # else: proof_step already reported

    # vm_compute cross-check of the extraction on a seeded sample
    vm_n = 0
    if model and proof_ok:
        e_idx = [k for k, c in enumerate(cases) if c.split()[1] == "e"]
        pick = sorted(rng.sample(e_idx, min(len(e_idx), 250 if rep.tier == "quick" else 1500)))
        vm_n = vm_crosscheck([cases[k] for k in pick], [model[k] for k in pick])

    # measured distribution
    e_cases = [c for c in cases if c.split()[1] == "e"]
    distinct = len({C.case_hash(" ".join(c.split()[1:])) for c in e_cases if nontrivial(c)})
    depths, kinds, prim, ncls = {}, {}, {}, {}
    set_differs = 0
    for k, c in enumerate(cases):
        t = c.split()
        kinds[t[1]] = kinds.get(t[1], 0) + 1
        if t[1] != "e":
            continue
        tree, _ = parse(t[2:])
        d = depth(tree)
        depths[d] = depths.get(d, 0) + 1
        o = impl[k].split()
        if len(o) == 7:
            f = kv(o[5])
            prim[f[0] if f else "-"] = prim.get(f[0] if f else "-", 0) + 1
            n = len([s for s in kv(o[4]) if s in SPECIFIC])
            ncls[n] = ncls.get(n, 0) + 1
            if [s for s in kv(o[4]) if s in EXPORTED] != f:
                set_differs += 1
    deepest = max((k for k, c in enumerate(cases) if c.startswith('r')), key=lambda k: (len(cases[k]) < 160, len(cases[k])))
    # the _refuted theorem's witnesses on the real code
    wit = C.run_lines(fsdbh, "errmap", ["wj e J2 LErrNotFound LErrEmptyKey", "wo e O"])
    refuted_reproduced = (len(wit) == 2 and "in=ErrNotFound,ErrEmptyKey full=ErrNotFound " in wit[0] + " "
                          and "in=- full=ErrUnknown " in wit[1] + " ")
    rep.coverage.update(
        evaluations=len(cases) + 3, distinct_nontrivial=distinct,
        rule="error trees: exhaustively 10 sentinels (+ a foreign error) x 7 wrappings {bare, Wrap, Wrap.Wrap, Join[x], Join[Other,x], "
             "Join[x,Other], Wrap(Join[Other,Wrap x])}, all 100 ordered pairs of sentinels joined (plain and wrapped), all 512 ordered "
             "triples of the 8 exported classes; seeded random trees of depth <= 6 (Wrap / Join of arity 1-4 / sentinel / foreign leaves); "
             "client alone on 18 status codes x 11 detail settings; levels 0..255 and proto levels -3..39 + boundary numbers. Each case is "
             "run through the real Error -> (marshalled status) -> ClientError and through the extracted model; the property oracle is "
             "evaluated on the implementation's answers. non-trivial = tree with >= 1 sentinel under >= 1 Wrap/Join; distinct by tree text",
        exhaustive=True,
        exhaustive_part="sentinels x wrappings, ordered pairs, ordered triples of exported classes, status-code x detail table, "
                        "all 256 model levels (%d error-tree cases); the random trees are a sample" % n_ex,
        case_kinds=kinds, tree_depths={str(k): v for k, v in sorted(depths.items())},
        client_class_hit={k: v for k, v in sorted(prim.items())},
        specific_classes_per_input={str(k): v for k, v in sorted(ncls.items())},
        inputs_where_errors_Is_set_differs_inline_vs_grpc=set_differs,
        traces_validated_against_impl=len(cases) if model else 0,
        impl_vs_model_mismatches=len(mism), oracle_violations=len(oracle_bad),
        vm_compute_crosschecked=vm_n,
        tables=tr.gen_status, tables_generated_from=GEN_FILES,
        refuted_theorems=["C11_class_set_refuted"], refuted_reproduced_on_impl=refuted_reproduced,
        partial_theorems=["C11_single_class_exact", "C11_no_class_is_unknown", "C11_code_consistent (excludes ErrHeaderNotFound: C11_code_header_exception)"],
        sections=["errmap"],
        samples=[dict(case=cases[k], impl=impl[k]) for k in (0, 75, 200, deepest, n_ex + 8, len(cases) - 300)],
        proof_ok=proof_ok)
    if not refuted_reproduced and not rep.violations:
        raise C.CheckBroken("witnesses of C11_class_set_refuted do not reproduce on the real code: %r" % wit)
    return proof_ok


def run_grpc_histories(rep, fsdbh):
    """whole client histories: external client against an in-process server vs the inline client vs the model"""
    from lib import histgen as G
    from lib import histcheck as H
    from lib import histprops as P
    rng = C.rng_for(rep.seed, "c11h")
    C.ensure_driver()
    n = 80 if rep.tier == "quick" else 600
    cases = P.corpus("c11_grpc.txt")
    ncorpus = len(cases)
    for i in range(n):
        prof = rng.choice(["autocommit", "mixed", "conflict", "mixed"])
        cases.append(G.gen_history(rng, "h%d" % i, profile=prof, probe_p=0.1, gc_p=0.03, late_p=rng.choice([0.0, 0.0, 0.2]),
                                   nops=rng.choice([10, 20, 40]), nkeys=rng.randint(1, 3)))
    # aborted uploads (source failure / caller cancellation) at boundary offsets, through both clients
    for i in range(6 if rep.tier == "quick" else 60):
        ln = rng.choice([10, 2049, 40000, 100000, 3000000])
        at = rng.choice([0, 1, 2048, ln // 2, ln - 1])
        how = rng.choice(["fail", "cancel"])
        cases.append("\n".join(["case ab%d roots=1" % i, "keytab 6b31", "set 0 1 1 4 s",
                                "setabort 0 1 %d %d %d %s" % (2 + i, ln, at, how), "get 0 1 g", "keys 0", "end"]))
    grpc = H.run_sharded(fsdbh, "hist", cases, extra=["grpc"], shards=8)
    inline = H.run_sharded(fsdbh, "hist", cases, extra=["inline"], shards=8)
    model = [H.canon(c, o) for c, o in zip(cases, H.run_model("hist", cases))]
    bad = 0
    for c, g, i, m in zip(cases, grpc, inline, model):
        if g != i or g != m:
            bad += 1
            if bad <= 3:
                d = H.first_diff(g, i) if g != i else H.first_diff(g, m)
                ops = [l for l in c.split("\n") if not l.startswith("keytab")]
                rep.violation(dict(kind="oracle", what="the gRPC client answers differently from the inline client on the same "
                                   "history (value or error class)", case=c, mode="grpc",
                                   failing_step=ops[d] if d is not None and d < len(ops) else None,
                                   grpc=g, inline=i, model=m))
    rep.coverage.update(grpc_history_cases=len(cases), grpc_history_corpus=ncorpus, grpc_vs_inline_mismatches=bad,
                        grpc_history_ops=sum(len(c.split("\n")) - 3 for c in cases),
                        grpc_sample=dict(case=cases[ncorpus].split("\n")[:10], grpc=grpc[ncorpus][:9]))
    rep.coverage["evaluations"] = rep.coverage.get("evaluations", 0) + len(cases)
    rep.coverage["traces_validated_against_impl"] = rep.coverage.get("traces_validated_against_impl", 0) + 2 * len(cases)


def run(rep):
    fsdbh = C.ensure_harness()
    run_errmap(rep, fsdbh)
    run_grpc_histories(rep, fsdbh)
    rep.assumptions = [
        "whole-history part: the same seeded histories (all four levels, transactions through metadata, all write forms, "
        "contents across the 2048-byte chunk boundary, late operations, aborted uploads) run through external.Open against an "
        "in-process server and through the inline client; values (content identity) and error classes must be equal and equal to the model",
        "error values are finite trees over the ten fs_db sentinels, foreign leaves, single-%w wrapping and errors.Join; custom "
        "error types with their own Is/Unwrap methods are outside the model",
        "the status travels intact (code + details) between Error and ClientError: modelled by marshalling and unmarshalling the "
        "status proto in the harness, not by a network round trip (that belongs to the history section)",
        "the translator (harness/gen_errmap.go) is trusted to report the switch cases in source order; it refuses shapes it does not know",
    ]


def replay(rep, path):
    p = json.load(open(path))
    case = p.get("case")
    if not case:
        print("replay file names no failing input:", p.get("what"))
        for l in p.get("table_diff", []):
            print("  " + l)
        print(p.get("coqc_output", "")[-2000:])
        return 1
    fsdbh = C.ensure_harness()
    tr = prepare(fsdbh)
    try:
        if tr.gen_status == "same":
            C.ensure_coq()
            C.ensure_driver()
        i = C.run_lines(fsdbh, "errmap", [case])
        print("case  :", case)
        print("impl  :", i[0])
        m = None
        if tr.model and tr.gen_status != "untranslatable":
            m = C.run_lines(C.DRIVER, "errmap", [case])
            print("model :", m[0], "(tables: %s)" % tr.gen_status)
        why = None if case.split()[1] == "a" and i[0].endswith(" ok") else oracle(case, i[0]) if case.split()[1] != "a" else "alias differs"
        print("oracle:", why or "property holds on this case")
        return 1 if why or (m is not None and m[0] != i[0]) else 0
    finally:
        tr.close()
