"""C10 — a failed or aborted write leaves no trace; a successful one is complete (INLINE CLIENT part).

Fault scripts (reported free space per root, ENOSPC plan per root, source length/chunking, failing
source reader, write form, previous value) are executed against the real inline database
(`fsdbh faults`, verif-tagged File.Write faults + disk.Usage override) and against the extracted Coq
model (`driver faults`, coq/Faults.v).  The candidate order is a random shuffle inside fs_db: the
harness observes the roots in which files were created, in order, and that sequence (followed by the
roots never touched) is the model's candidate order.  The gRPC abort paths are added by
run_grpc_aborts (later revision)."""
import json
import os
from concurrent.futures import ThreadPoolExecutor

from lib import common as C

BUF = 32768
BIG = 1 << 40
LENS = [0, 1, 2047, 2048, 2049, 32767, 32768, 32769, 65536, 65537, 100000]
CORPUS = os.path.join(C.CORPUS, "c10.txt")
NSHARDS = min(8, C.NCPU)


# --------------------------------------------------------------------------
# cases (dicts) <-> harness lines

def case_line(c, want=None):
    w = c.get("want") if want is None else want
    return "%s roots=%d free=%s fault=%s len=%d seed=%d form=%s rfail=%s prev=%s want=%s%s" % (
        c["id"], c["roots"], ",".join(str(x) for x in c["free"]),
        ",".join("-" if f is None else "%d:%d" % f for f in c["fault"]),
        c["len"], c["seed"], c["form"], "-" if c["rfail"] is None else c["rfail"],
        "-" if c["prev"] is None else c["prev"], ",".join(str(x) for x in w) if w else "-",
        " tries=%d" % c["tries"] if c.get("tries") else "")


def parse_case(line):
    t = line.split()
    kv = dict(x.split("=", 1) for x in t[1:])
    n = int(kv["roots"])
    dash = lambda s: None if s in ("-", "") else s
    c = dict(id=t[0], roots=n, free=[int(x) for x in kv["free"].split(",")][:n],
             fault=[None if f == "-" else tuple(int(y) for y in f.split(":")) for f in kv["fault"].split(",")][:n],
             len=int(kv["len"]), seed=int(kv["seed"]), form=kv["form"],
             rfail=None if dash(kv.get("rfail", "-")) is None else int(kv["rfail"]),
             prev=None if dash(kv.get("prev", "-")) is None else int(kv["prev"]),
             want=[int(x) for x in kv["want"].split(",")] if dash(kv.get("want", "-")) else None)
    return c


def cut(n, size):
    out = []
    while n > 0:
        k = min(n, size)
        out.append(k)
        n -= k
    return out


def source_chunks(c):
    """Sizes of the source's Read results as io.Copy (32 KiB buffer) sees them; 'F' = failing Read."""
    form = c["form"].split(":")
    if form[0] == "set":
        return cut(c["len"], BUF)
    if form[0] == "rdr":
        size = min(int(form[1]), BUF)
        if c["rfail"] is not None and c["rfail"] <= c["len"]:
            return cut(c["rfail"], size) + ["F"]
        return cut(c["len"], size)
    # crt: every Write lands in the pipe's buffer before the storing goroutine can read it only when there
    # is a single Write; with several Writes the split is timing dependent (such cases carry no write fault,
    # so nothing the model prints depends on it: C10_success_is_exact holds for every split)
    sizes = [int(x) for x in form[1].split(".") if x] if len(form) > 1 and form[1] else []
    out, rest = [], c["len"]
    for s in sizes:
        s = min(s, rest)
        out += cut(s, BUF)
        rest -= s
    return out + cut(rest, BUF)


def chunking_deterministic(c):
    form = c["form"].split(":")
    if form[0] != "crt":
        return True
    sizes = [x for x in form[1].split(".") if x] if len(form) > 1 and form[1] else []
    return len(sizes) == 0 or (len(sizes) == 1 and int(sizes[0]) >= c["len"])


def model_line(c, visited, variant):
    order = list(visited) + [r for r in range(c["roots"]) if r not in visited]
    roots = []
    for r in order:
        f = c["fault"][r]
        roots.append("%d:%d:%s" % (r, c["free"][r], "-" if f is None else "%d:%d" % f))
    ch = source_chunks(c)
    return "%s dedup=%d late=%d buf=%d order=%s seed=%d chunks=%s" % (
        c["id"], variant["dedup"], variant["late"], BUF, ",".join(roots) or "-", c["seed"],
        ",".join(str(x) for x in ch) or "-")


def fields(line):
    parts = [p.strip() for p in line.split(" | ")]
    out = dict(id=parts[0], raw=line)
    for p in parts[1:]:
        if "=" in p:
            k, v = p.split("=", 1)
            out[k] = v
        else:
            out["problem"] = p
    return out


# --------------------------------------------------------------------------
# running

def run_sharded(binary, cmd, lines, timeout=600):
    if not lines:
        return []
    shards = [lines[i::NSHARDS] for i in range(NSHARDS)]
    shards = [s for s in shards if s]
    with ThreadPoolExecutor(len(shards)) as ex:
        outs = list(ex.map(lambda s: C.run_lines(binary, cmd, s, timeout=timeout), shards))
    by_id = {}
    for s, o in zip(shards, outs):
        if len(o) != len(s):
            raise C.CheckBroken("%s %s: %d lines for %d cases" % (os.path.basename(binary), cmd, len(o), len(s)))
        for l, r in zip(s, o):
            by_id[l.split()[0]] = r
    return [by_id[l.split()[0]] for l in lines]


def run_impl(fsdbh, cases):
    res = run_sharded(fsdbh, "faults", [case_line(c) for c in cases])
    again = [k for k, r in enumerate(res) if "ORDER-NOT-REACHED" in r]
    if again:   # the wanted visiting order never came up (or is impossible): take whatever order comes
        res2 = run_sharded(fsdbh, "faults", [case_line(cases[k], want=[]) for k in again])
        for k, r in zip(again, res2):
            res[k] = r
    return [fields(r) for r in res]


def run_model(cases, impl, variant):
    lines = []
    for c, i in zip(cases, impl):
        visited = [int(x) for x in i.get("order", "-").split(",")] if i.get("order", "-") != "-" else []
        lines.append(model_line(c, visited, variant))
    return [fields(r) for r in run_sharded(C.DRIVER, "faults", lines)], lines


# --------------------------------------------------------------------------
# comparison and oracle

def expected_from_model(c, m):
    """The harness line the model predicts (same fields as the implementation's)."""
    exp = dict(order=m["visited"], err=m["err"])
    disk = {}
    if m["orph"] != "-":
        for o in m["orph"].split(";"):
            r, ident = o.split(":", 1)
            disk.setdefault(int(r), []).append(ident)
    if m["err"] == "ok":
        r, ident = m["stored"].split(":", 1)
        disk.setdefault(int(r), []).append(ident)
        same_prev = c["prev"] is not None and c["prev"] == 0 and c["len"] == 0
        exp["get"] = ("src=prev " if same_prev else "src " if ident == m["src"] else "other ") + ident
    else:
        same_prev = c["prev"] is not None and c["prev"] == 0 and c["len"] == 0
        exp["get"] = ("src=prev" if same_prev else "prev") if c["prev"] is not None else "notfound"
    exp["disk"] = ";".join("%d:%s" % (r, ",".join(sorted(disk[r]))) for r in sorted(disk)) or "-"
    nvis = 0 if m["visited"] == "-" else len(m["visited"].split(","))
    exp["fd"] = "%d/%d" % (nvis, nvis - int(m["leaks"]))
    return exp


def expected_first_writes(c, first_root):
    out, off = [], 0
    f = c["fault"][first_root]
    for ch in source_chunks(c):
        if ch == "F":
            break
        if ch == 0:
            continue
        out.append(ch)
        if f is not None and off + ch > f[0]:
            break
        off += ch
    return ",".join(str(x) for x in out) or "-"


def compare(c, i, m):
    """List of differences between implementation and model on one case."""
    if "problem" in i:
        return ["harness: " + i["problem"]]
    if "problem" in m:
        return ["driver: " + m["problem"]]
    exp = expected_from_model(c, m)
    diffs = []
    for k in ("order", "err", "disk", "fd"):
        if i.get(k) != exp[k]:
            diffs.append("%s: impl %s, model %s" % (k, i.get(k), exp[k]))
    g = i.get("get", "")
    if exp["get"] in ("prev", "src=prev", "notfound"):
        if g.split(" ")[0] != exp["get"]:
            diffs.append("get: impl %s, model %s" % (g, exp["get"]))
    elif g != exp["get"]:
        diffs.append("get: impl %s, model %s" % (g, exp["get"]))
    if i.get("prevfiles") not in ("0/0", "1/1"):
        diffs.append("previous value's file: %s" % i.get("prevfiles"))
    if chunking_deterministic(c) and i.get("order", "-") != "-":
        ew = expected_first_writes(c, int(i["order"].split(",")[0]))
        if i.get("w") != ew:
            diffs.append("write sizes in the first file: impl %s, expected %s" % (i.get("w"), ew))
    return diffs


def oracle(c, i):
    """The property evaluated on the implementation's own observations. Returns list of (signature, text)."""
    if "problem" in i:
        return []
    out = []
    err, get = i.get("err"), i.get("get", "").split(" ")[0]
    src_fails = c["rfail"] is not None and c["rfail"] <= c["len"]
    visited = [int(x) for x in i["order"].split(",")] if i.get("order", "-") != "-" else []
    if err == "ok":
        if get not in ("src", "src=prev"):
            partial = any(c["fault"][r] is not None and c["fault"][r][1] > 0 for r in visited[:-1])
            out.append(("success-not-exact" + ("/partial-write" if partial else ""),
                        "the write returned nil but Get returns %s (source: %d bytes)" % (i.get("get"), c["len"])))
        if src_fails:
            out.append(("success-despite-reader-error", "the source reader failed at offset %d but the write returned nil" % c["rfail"]))
    else:
        want = ("prev", "src=prev") if c["prev"] is not None else ("notfound",)
        if get not in want:
            out.append(("failure-left-trace", "the write failed (%s) but Get returns %s instead of %s"
                        % (err, i.get("get"), "the previous value" if c["prev"] is not None else "not found")))
        if src_fails is False:
            # a fault-free root that reports more free space than every other root: must succeed for every order
            for r in range(c["roots"]):
                if c["fault"][r] is None and c["free"][r] > 0 and all(
                        c["free"][d] < c["free"][r] for d in range(c["roots"]) if d != r):
                    out.append(("no-continuation/" + err,
                                "root %d has no fault and reports more free space than every other root, but the write failed with %s"
                                % (r, err)))
                    break
    if not src_fails and err != "NoFreeSpace" and all(
            c["free"][r] == 0 or (c["fault"][r] is not None and c["fault"][r][0] < c["len"]) for r in range(c["roots"])):
        out.append(("no-room-not-reported/" + str(err), "no root has room but the write ended with %s" % err))
    return out


# --------------------------------------------------------------------------
# generation

def gen_case(rng, cid, tier):
    n = rng.choice([1, 2, 2, 3, 3])
    ln = rng.choice(LENS + LENS + [rng.randrange(0, 100001), rng.randrange(0, 5000), rng.randrange(30000, 70000)])
    if tier == "thorough" and rng.random() < 0.1:
        ln = rng.randrange(100000, 300000)
    pool = rng.choice([[5, 10, 20, 30, 40], [7, 7, 9, 9, 11], [0, 5, 10, 10, 20]])
    free = [rng.choice(pool) for _ in range(n)]
    if rng.random() < 0.7:   # mostly distinct reports
        free = rng.sample([5, 10, 20, 30, 40, 50], n)
        if rng.random() < 0.1:
            free[rng.randrange(n)] = 0
    fault = []
    for _ in range(n):
        if rng.random() < 0.35:
            fault.append(None)
            continue
        cap = rng.choice([0, 1, 2047, 2048, 2049, 32767, 32768, 32769, max(ln - 1, 0), ln, ln + 1,
                          rng.randrange(0, ln + 1), rng.randrange(0, ln + 1), rng.randrange(0, ln + 1)])
        keep = rng.choice([0, 0, BIG, BIG, rng.randrange(1, 3000)])
        fault.append((cap, keep))
    form_kind = rng.choice(["set", "set", "rdr", "rdr", "rdr", "crt"])
    rfail = None
    if form_kind == "set":
        form = "set"
    elif form_kind == "rdr":
        sizes = [7, 1000, 2048, 4096, 32768, 40000, rng.randrange(1, 50000)]
        if ln <= 3000:
            sizes += [1, 3]
        if ln > 40000:
            sizes = [s for s in sizes if s >= 1000]
        form = "rdr:%d" % rng.choice(sizes)
        if rng.random() < 0.3:
            rfail = rng.choice([0, 1, ln // 2, max(ln - 1, 0), ln, rng.randrange(0, ln + 1)])
    else:
        if any(f is not None for f in fault) and rng.random() < 0.8:
            form = "crt:"           # one Write: deterministic split
        elif any(f is not None for f in fault):
            fault = [None] * n      # several Writes: no write faults (split is timing dependent)
            form = "crt:%s" % ".".join(str(rng.choice([1, 100, 2048, 5000, 40000])) for _ in range(rng.randint(2, 4)))
        else:
            form = "crt:%s" % ".".join(str(rng.choice([1, 100, 2048, 5000, 40000])) for _ in range(rng.randint(0, 4)))
    prev = rng.choice([None, None, 0, 1, 10, 5000, 40000])
    c = dict(id=cid, roots=n, free=free, fault=fault, len=ln, seed=rng.randrange(1, 100000), form=form, rfail=rfail,
             prev=prev, want=None)
    # steer the shuffle towards the retry paths: visit roots that run out first, in ascending order of their report
    failing = sorted([r for r in range(n) if fault[r] is not None and fault[r][0] < ln and free[r] > 0
                      and (rfail is None or rfail > fault[r][0])], key=lambda r: free[r])
    chain = []
    for r in failing:
        if not chain or free[r] > free[chain[-1]]:
            chain.append(r)
    if chain and rng.random() < 0.75:
        c["want"] = chain[:rng.randint(1, len(chain))]
    return c


def fault_kind(c):
    ks = set()
    for f in c["fault"]:
        if f is None:
            continue
        if f[0] >= c["len"]:
            ks.add("cap-not-reached")
        elif f[1] == 0:
            ks.add("enospc-all-or-nothing")
        elif f[1] >= BIG:
            ks.add("enospc-partial-fit")
        else:
            ks.add("enospc-partial-short")
    if c["rfail"] is not None and c["rfail"] <= c["len"]:
        ks.add("reader-fails")
    if any(x == 0 for x in c["free"]):
        ks.add("root-reports-zero")
    return sorted(ks) or ["none"]


def nontrivial(c, i):
    """a fault actually fired: some root ran out, the reader failed, or a root was skipped / nothing had room"""
    return i.get("err") != "ok" or (i.get("order", "-").count(",") >= 1)


def load_corpus():
    out = []
    if os.path.exists(CORPUS):
        for l in open(CORPUS):
            l = l.strip()
            if l and not l.startswith("#"):
                out.append(parse_case(l))
    return out


# --------------------------------------------------------------------------
# shrinking and reporting

def shrink_candidates(c):
    out = []
    for ln in sorted({0, 1, 10, 100, 3000, c["len"] // 2, 40000, 70000}):
        if ln < c["len"]:
            d = dict(c, len=ln, fault=[None if f is None else (f[0] * ln // max(c["len"], 1), f[1]) for f in c["fault"]],
                     rfail=None if c["rfail"] is None else c["rfail"] * ln // max(c["len"], 1))
            out.append(d)
            out.append(dict(c, len=ln, rfail=None if c["rfail"] is None else min(c["rfail"], ln)))
    if c["prev"] is not None:
        out.append(dict(c, prev=None))
    if c["form"] != "set" and c["rfail"] is None:
        out.append(dict(c, form="set"))
    if c["rfail"] is not None:
        out.append(dict(c, rfail=None))
    for k in range(c["roots"]):
        if c["roots"] > 1:
            keep = [r for r in range(c["roots"]) if r != k]
            ren = {r: j for j, r in enumerate(keep)}
            out.append(dict(c, roots=len(keep), free=[c["free"][r] for r in keep], fault=[c["fault"][r] for r in keep],
                            want=[ren[r] for r in (c["want"] or []) if r in ren] or None))
    for k in range(c["roots"]):
        if c["fault"][k] is not None and c["fault"][k][1] not in (0,):
            f = list(c["fault"])
            f[k] = (f[k][0], 0)
            out.append(dict(c, fault=f))
    return out


def one(fsdbh, c, variant):
    i = run_impl(fsdbh, [c])
    m, ml = run_model([c], i, variant)
    return i[0], m[0], ml[0]


def shrink(fsdbh, c, i0, variant, failing, budget=40):
    """Greedy: smaller case on which `failing(case, impl, model)` still holds."""
    cur, ci, cm = c, i0, None
    visited = [int(x) for x in i0["order"].split(",")] if i0.get("order", "-") != "-" else []
    cur = dict(cur, want=visited[:1] or None, tries=12)
    progress = True
    while progress and budget > 0:
        progress = False
        for d in shrink_candidates(cur):
            if budget <= 0:
                break
            budget -= 1
            d = dict(d, id=c["id"] + "s")
            try:
                i, m, _ = one(fsdbh, d, variant)
            except C.CheckBroken:
                continue
            if failing(d, i, m):
                cur, progress = d, True
                break
    return cur


def investigate(rep, fsdbh, c, i, m, mline, diffs, variant, open_sigs):
    """impl != model on case c: shrink, evaluate the oracle, report."""
    small = shrink(fsdbh, c, i, variant, lambda d, di, dm: bool(compare(d, di, dm)))
    si, sm, sml = one(fsdbh, small, variant)
    for cc, ii, mm, ml in ((small, si, sm, sml), (c, i, m, mline)):
        viol = [v for v in oracle(cc, ii) if v[0] not in open_sigs]
        if viol:
            rep.violation(dict(kind="property-violated", case=case_line(cc), what=viol[0][1], signature=viol[0][0],
                               all_oracle_findings=[v[1] for v in viol], impl=ii["raw"], model=mm["raw"],
                               model_case=ml, differences=compare(cc, ii, mm),
                               note="the model is coq/Faults.v run with dedup=%(dedup)d late=%(late)d" % variant))
            return
    rep.violation(dict(kind="correspondence", correspondence="fsdbh faults (usecase/store.Set, repository/content.Store) vs coq/Faults.v",
                       case=case_line(small), original_case=case_line(c), impl=si["raw"], model=sm["raw"], model_case=sml,
                       differences=compare(small, si, sm) or diffs), no_input=True)


# --------------------------------------------------------------------------
# extraction cross-check: the same small cases through the OCaml driver and through vm_compute

def lcg_bytes(seed, n):
    x = (seed * 1000003 + 12345) & 0x7fffffff
    out = []
    for _ in range(n):
        x = (x * 1103515245 + 12345) & 0x7fffffff
        out.append((x >> 16) & 0xff)
    return out


def vm_crosscheck(rng, n):
    lines, coq = [], []
    for k in range(n):
        nroots = rng.randint(1, 3)
        buf = rng.choice([1, 3, 4, 16, BUF])
        chunks = [rng.choice([0, 1, 2, 3, 5, 8, 13]) for _ in range(rng.randint(0, 6))]
        if rng.random() < 0.25:
            chunks.insert(rng.randint(0, len(chunks)), "F")
        total = sum(x for x in chunks if x != "F")
        roots = []
        for r in rng.sample(range(nroots), nroots):
            f = None if rng.random() < 0.3 else (rng.randint(0, total + 1), rng.choice([0, 1, 2, BIG]))
            roots.append((r, rng.choice([0, 3, 5, 5, 7, 9]), f))
        dedup, late, seed = rng.randint(0, 1), rng.randint(0, 1), rng.randrange(1, 1000)
        lines.append("x%d dedup=%d late=%d buf=%d order=%s seed=%d chunks=%s raw=1" % (
            k, dedup, late, buf, ",".join("%d:%d:%s" % (r, fr, "-" if f is None else "%d:%d" % f) for r, fr, f in roots),
            seed, ",".join(str(x) for x in chunks) or "-"))
        data, src = lcg_bytes(seed, total), []
        for ch in chunks:
            if ch == "F":
                src.append("Fail")
            else:
                src.append("Data [%s]" % ";".join(str(b) for b in data[:ch]))
                data = data[ch:]
        coq.append("run_faults %s %s %d%%nat [%s] [%s]" % (
            "true" if dedup else "false", "true" if late else "false", buf,
            ";".join("mkroot %d %d %s" % (r, fr, "NoFault" if f is None else "(EnospcAt %d %d)" % f) for r, fr, f in roots),
            ";".join(src)))
    res = C.run_lines(C.DRIVER, "faults", lines)
    body = ["From Coq Require Import List NArith.", "From FsDb Require Import Faults.", "Import ListNotations.",
            "Open Scope N_scope."]
    for k, (term, r) in enumerate(zip(coq, res)):
        if " | coq=" not in r:
            raise C.CheckBroken("driver raw output missing: " + r[:200])
        body.append("Example x%d : %s = %s.\nProof. vm_compute. reflexivity. Qed." % (k, term, r.split(" | coq=", 1)[1]))
    import tempfile, shutil
    d = tempfile.mkdtemp(prefix="verif-c10-")
    try:
        with open(os.path.join(d, "C10Cases.v"), "w") as f:
            f.write("\n".join(body) + "\n")
        rc, out = C.sh("timeout 300 coqc -Q %s FsDb C10Cases.v" % C.COQ, cwd=d, timeout=320)
        if rc != 0:
            raise C.CheckBroken("extracted model and vm_compute disagree (or cases.v does not compile):\n" + out[-3000:])
    finally:
        shutil.rmtree(d, ignore_errors=True)
    return len(lines)


# --------------------------------------------------------------------------

def model_variant():
    """Which model the implementation is compared with: the repaired one, unless a finding is listed as open."""
    v = dict(dedup=1, late=1)
    open_sigs = set()
    for f in C.known_findings("C10"):
        if f.get("status") == "open" and f.get("id") == "D16":
            v["dedup"] = 0
            open_sigs |= {"success-not-exact/partial-write"}
        if f.get("status") == "open" and f.get("id") == "D17":
            v["late"] = 0
            open_sigs |= {"no-continuation/other:closed", "no-room-not-reported/other:closed"}
    return v, open_sigs


def run_inline_faults(rep, fsdbh, stats):
    rng = C.rng_for(rep.seed, "c10")
    variant, open_sigs = model_variant()
    corpus = load_corpus()
    n = 260 if rep.tier == "quick" else 6000
    cases = corpus + [gen_case(rng, "g%d" % k, rep.tier) for k in range(n)]
    impl = run_impl(fsdbh, cases)
    model, mlines = run_model(cases, impl, variant)
    reported = 0
    known_seen = {}
    mism = 0
    for c, i, m, ml in zip(cases, impl, model, mlines):
        diffs = compare(c, i, m)
        orc = oracle(c, i)
        for sig, text in orc:
            if sig in open_sigs:
                known_seen[sig] = known_seen.get(sig, 0) + 1
        bad_orc = [v for v in orc if v[0] not in open_sigs]
        if diffs:
            mism += 1
        if (diffs or bad_orc) and reported < 3:
            reported += 1
            if diffs:
                investigate(rep, fsdbh, c, i, m, ml, diffs, variant, open_sigs)
            else:
                rep.violation(dict(kind="property-violated", case=case_line(c), what=bad_orc[0][1], signature=bad_orc[0][0],
                                   impl=i["raw"], model=m["raw"], model_case=ml))
    for f in C.known_findings("C10"):
        if f.get("status") == "open":
            sigs = {"D16": ["success-not-exact/partial-write"],
                    "D17": ["no-continuation/other:closed", "no-room-not-reported/other:closed"]}.get(f.get("id"), [])
            seen = sum(known_seen.get(sig, 0) for sig in sigs)
            if seen:
                rep.known_finding("%s: %s (reproduced in %d cases of this run)" % (f["id"], f["what"], seen))
    kinds, forms, errs, nroots, visits = {}, {}, {}, {}, {}
    for c, i in zip(cases, impl):
        for k in fault_kind(c):
            kinds[k] = kinds.get(k, 0) + 1
        forms[c["form"].split(":")[0]] = forms.get(c["form"].split(":")[0], 0) + 1
        errs[i.get("err", "?")] = errs.get(i.get("err", "?"), 0) + 1
        nroots[str(c["roots"])] = nroots.get(str(c["roots"]), 0) + 1
        nv = 0 if i.get("order", "-") == "-" else len(i["order"].split(","))
        visits[str(nv)] = visits.get(str(nv), 0) + 1
    distinct = len({C.case_hash(case_line(c, want=[]).split(" ", 1)[1] + " " + i.get("order", "-"))
                    for c, i in zip(cases, impl) if nontrivial(c, i)})
    stats.update(
        evaluations=len(cases), distinct_nontrivial=distinct, corpus_cases=len(corpus),
        traces_validated_against_impl=len(cases), impl_vs_model_mismatches=mism,
        fault_kinds=kinds, write_forms=forms, error_classes_hit=errs, roots_per_case=nroots, roots_visited_per_write=visits,
        model_variant="store_fixed" if variant == dict(dedup=1, late=1) else "dedup=%(dedup)d late=%(late)d" % variant,
        samples=[dict(case=case_line(cases[k]), impl=impl[k]["raw"], model=model[k]["raw"])
                 for k in sorted({0, len(corpus), len(cases) - 1}) if k < len(cases)])


def run_client_aborts(rep, fsdbh, stats):
    """a source reader that fails, or a caller that cancels, after `at` bytes - through the inline AND the gRPC client, with
    an old value, a fresh key, inside and outside a transaction: the call must fail, the key keeps what it had, GetKeys
    does not list a fresh key, and nobody reads partial content (property oracle on the implementation's own answers)"""
    from lib import histcheck as H
    rng = C.rng_for(rep.seed, "c10-aborts")
    n = 24 if rep.tier == "quick" else 300
    cases = []
    for i in range(n):
        ln = rng.choice([1, 10, 2048, 2049, 32768, 40000, 100000, 1000000])
        at = rng.choice([0, 1, 2047, 2048, 32767, ln // 2, ln - 1])
        at = min(at, ln - 1) if ln > 1 else 0
        how = rng.choice(["fail", "fail", "cancel"])
        fresh = rng.random() < 0.4
        intx = rng.random() < 0.3
        ls = ["case ca%d roots=%d" % (i, rng.choice([1, 2])), "keytab 6b31 6b32"]
        if not fresh:
            ls.append("set 0 1 1 %d s" % rng.choice([0, 4, 3000]))
        h = 0
        if intx:
            ls.append("begin " + rng.choice(["RC", "RR"]))
            h = 1
        ls.append("setabort %d 1 %d %d %d %s" % (h, 2 + i, ln, at, how))
        ls += ["get %d 1 g" % h, "keys %d" % h]
        if intx:
            ls += ["commit 1"]
        ls += ["get 0 1 g", "keys 0", "drain", "gc", "get 0 1 r", "end"]
        cases.append("\n".join(ls))
    bad = 0
    for mode in ("inline", "grpc"):
        outs = H.run_sharded(fsdbh, "hist", cases, extra=[mode], shards=8)
        for c, o in zip(cases, outs):
            ops = [l for l in c.split("\n") if not l.startswith("keytab")]
            res = list(zip(ops, o))
            old = next((r for l, r in res if l.startswith("set 0 1 1 ")), None)
            want_get = "err NotFound" if old is None else None
            ab = next(r for l, r in res if l.startswith("setabort"))
            problems = []
            if not ab.startswith("err"):
                problems.append("the aborted write returned %s" % ab)
            first_val = None
            for l, r in res:
                if l.startswith("get "):
                    if old is None and r != "err NotFound":
                        problems.append("%s -> %s although the key never had a value" % (l, r))
                    if old is not None:
                        first_val = first_val or r
                        if not r.startswith("val ") or r != first_val:
                            problems.append("%s -> %s (the value before the aborted write reads %s)" % (l, r, first_val))
                if l.startswith("keys") and old is None and r.strip() != "keys":
                    problems.append("%s -> %s lists a key that was never stored" % (l, r))
            if problems:
                bad += 1
                if bad <= 3:
                    rep.violation(dict(kind="oracle", what="an aborted write (%s client) left a trace: %s" % (mode, "; ".join(problems[:3])),
                                       case=c, impl=o, mode=mode))
    stats["client_abort_cases"] = dict(cases=len(cases), modes=["inline", "grpc"], violations=bad)


def sr_oracle(ab, chunks, sizes, results, verdict):
    """the property's own reading of one run of the upload reader (no model): data in order, a clean end is only reported
    when the stream ended cleanly and everything was delivered, an abort is never reported as a clean end, every Read with
    a non-empty buffer makes progress or reports the end"""
    total, got, out = sum(chunks), 0, []
    if verdict != "ok":
        out.append("the data results are not the first bytes of the upload")
    for n, r in zip(sizes, results):
        if r.startswith("d"):
            k = int(r[1:])
            got += k
            if k > n:
                out.append("a Read with a %d-byte buffer returned %d bytes" % (n, k))
            if n > 0 and k == 0:
                out.append("a Read with a non-empty buffer returned 0 bytes and no error")
        elif r == "eof":
            if ab:
                out.append("the aborted stream was reported as a clean end (io.EOF) after %d of %d bytes" % (got, total))
            elif got != total:
                out.append("io.EOF after %d of %d bytes" % (got, total))
        elif r == "err":
            if not ab:
                out.append("an error although the stream ended cleanly")
        else:
            out.append("unexpected result " + r)
    return out


def run_stream_reader(rep, fsdbh, stats):
    """the server's upload reader (streamreader.Read) against Stream.v: scripted streams (chunk lengths incl. 0, clean end or
    abort) x sequences of Read buffer lengths (incl. 0); impl vs extracted model, the property oracle on the impl's answers,
    and a sample re-evaluated by vm_compute"""
    rng = C.rng_for(rep.seed, "c10-stream")
    cases = ["s0 1 2,3 3,3,3,0", "s1 1 - 4,4", "s2 1 5 5,1,1", "s3 0 0,0 1,1", "s4 1 0,0 0,1,0", "s5 0 4 0,0,4,0,1", "s6 1 4 2,2,2,2",
             "s7 1 2048,2048 32768,32768", "s8 0 2048,2048,1 32768,32768"]
    n = 400 if rep.tier == "quick" else 6000
    for i in range(n):
        nch = rng.choice([0, 1, 1, 2, 3, 5, 8])
        cl = [rng.choice([0, 1, 2, 3, 7, 16, 100, 2048]) for _ in range(nch)]
        total = sum(cl)
        style = rng.random()
        if style < 0.5:                      # a consumer with one buffer length reading past the end
            b = rng.choice([1, 2, 3, 5, 16, 64, 2048, 32768])
            sizes = [b] * min(40, total // b + 3)
        else:
            sizes = [rng.choice([0, 1, 1, 2, 3, 5, 16, 100, 4096]) for _ in range(rng.randint(1, 12))]
        cases.append("r%d %d %s %s" % (i, rng.random() < 0.5, ",".join(map(str, cl)) or "-", ",".join(map(str, sizes))))
    impl = C.run_lines(fsdbh, "sreader", cases)
    model = C.run_lines(C.DRIVER, "sr", cases)
    bad, kinds = 0, dict(eof=0, err=0, aborted=0, zero_reads=0)
    for c, i, m in zip(cases, impl, model):
        t = c.split()
        ab, cl, sizes = t[1] == "1", [int(x) for x in t[2].split(",")] if t[2] != "-" else [], [int(x) for x in t[3].split(",")]
        f = i.split()
        problems = []
        if len(f) != 3 or f[0] != t[0]:
            problems.append("the harness answered %r" % i)
        else:
            rs = f[1].split(",") if f[1] != "-" else []
            kinds["eof"] += "eof" in rs
            kinds["err"] += "err" in rs
            kinds["aborted"] += ab
            kinds["zero_reads"] += 0 in sizes
            problems += sr_oracle(ab, cl, sizes, rs, f[2])
        if i != m:
            problems.append("implementation and model (coq/Stream.v) differ: impl %s, model %s" % (i, m))
        if problems:
            bad += 1
            if bad <= 3:
                rep.violation(dict(kind="stream-reader", what="upload reader: " + "; ".join(problems[:3]), case=c, impl=i, model=m,
                                   theorem="C10_grpc_abort_never_stored / C10_grpc_upload_exact (coq/Properties/C10.v)"))
    # a sample inside Coq
    sample = [(c, m) for c, m in zip(cases, model) if sum(map(int, c.split()[3].split(","))) < 300 and c.split()[2].count(",") < 6][:40]
    body = ["From Coq Require Import List NArith.", "From FsDb Require Import Stream.", "Import ListNotations."]
    for k, (c, m) in enumerate(sample):
        t = c.split()
        cl = [int(x) for x in t[2].split(",")] if t[2] != "-" else []
        off, chunks = 0, []
        for x in cl:
            chunks.append("[%s]" % ";".join(str(97 + (off + j) % 26) for j in range(x)))
            off += x
        want = []
        for r in (m.split()[1].split(",") if m.split()[1] != "-" else []):
            want.append("2" if r == "eof" else "3" if r == "err" else str(10 + int(r[1:])))
        body.append("Example s%d : map (fun r => match r with SrData d => 10 + length d | SrEof => 2 | SrErr => 3 end) "
                    "(sr_run (A:=nat) false [%s] %s [%s]) = [%s].\nProof. vm_compute. reflexivity. Qed." % (
                        k, ";".join(chunks), "true" if t[1] == "1" else "false", t[3].replace(",", ";"), ";".join(want)))
    import tempfile, shutil
    d = tempfile.mkdtemp(prefix="verif-c10s-")
    try:
        with open(os.path.join(d, "C10Stream.v"), "w") as f:
            f.write("\n".join(body) + "\n")
        rc, out = C.sh("timeout 300 coqc -Q %s FsDb C10Stream.v" % C.COQ, cwd=d, timeout=320)
        if rc != 0:
            raise C.CheckBroken("extracted stream model and vm_compute disagree (or cases.v does not compile):\n" + out[-3000:])
    finally:
        shutil.rmtree(d, ignore_errors=True)
    stats["stream_reader_cases"] = dict(cases=len(cases), violations=bad, vm_compute_crosschecked=len(sample), **kinds)


def run(rep):
    proof_ok = C.proof_step(rep, "C10")
    C.ensure_driver()
    fsdbh = C.ensure_harness()
    stats = {}
    run_inline_faults(rep, fsdbh, stats)
    run_client_aborts(rep, fsdbh, stats)
    run_stream_reader(rep, fsdbh, stats)
    stats["vm_compute_crosschecked_cases"] = vm_crosscheck(C.rng_for(rep.seed, "c10-vm"), 60 if rep.tier == "quick" else 400)
    rep.coverage.update(stats)
    rep.coverage.update(
        rule="corpus/c10.txt first (D16 and D17 witnesses, handle-leak and boundary cases), then seeded fault scripts: 1-3 roots; "
             "reported free space per root from small pools with ties and zeros; per root no fault or ENOSPC at capacity "
             "{0,1,2047,2048,2049,32767,32768,32769,len-1,len,len+1,random} x {all-or-nothing, partial (everything that fits), "
             "partial (short)}; source length from {0,1,2047,2048,2049,32767,32768,32769,65536,65537,100000} and random; write "
             "form Set / SetReader over a chunked reader (chunk 1..50000) optionally failing at offset {0,1,len/2,len-1,len,"
             "random} / Create+Write*+Close; previous value absent or of length {0,1,10,5000,40000}; 75% of the cases with "
             "failing roots are repeated until the shuffle visits a chosen chain of failing roots first; "
             "distinct = distinct (script, observed visiting order); non-trivial = a fault fired (the write failed, or a "
             "second root had to be used)",
        scope="inline client (Set, SetReader, Create+Write*+Close) under write faults; the gRPC server's upload reader (Stream.v) against scripted streams; aborted uploads end to end through both clients",
        refuted_theorems=["C10_success_is_exact_refuted_orig", "C10_continues_on_other_root_refuted_orig"],
        partial_theorems=["C10_success_is_exact_partial_orig", "C10_continues_two_roots_partial_orig"],
        proof_ok=proof_ok)
    rep.assumptions = [
        "the file system is modelled: a faulted Write stores min(capacity-offset, keep) bytes of its chunk and returns ENOSPC "
        "(injected through the verif-tagged File.Write; a real full disk is not used); reported free space is overridden per root",
        "Badger writes of the content and version records succeed (their failure is not injected)",
        "Create+Write*+Close with several Writes is only run without write faults (the split of the stream into reads is "
        "timing dependent there); the theorems hold for every split",
    ]


def replay(rep, path):
    p = json.load(open(path))
    if p.get("kind") == "stream-reader":
        fsdbh = C.ensure_harness()
        C.ensure_driver()
        i = C.run_lines(fsdbh, "sreader", [p["case"]])[0]
        m = C.run_lines(C.DRIVER, "sr", [p["case"]])[0]
        t = p["case"].split()
        print("case  :", p["case"], "  (<id> <aborted> <chunk lengths> <read buffer lengths>)")
        print("impl  :", i)
        print("model :", m, "  (coq/Stream.v)")
        f = i.split()
        probs = sr_oracle(t[1] == "1", [int(x) for x in t[2].split(",")] if t[2] != "-" else [], [int(x) for x in t[3].split(",")],
                          f[1].split(",") if len(f) == 3 and f[1] != "-" else [], f[2] if len(f) == 3 else "BAD")
        for x in probs:
            print("property:", x)
        return 1 if (probs or i != m) else 0
    if "case" not in p:
        print(json.dumps(p, indent=1)[:4000])
        print("this replay file names a broken proof/build, not a case: re-run ./check C10")
        return 1
    fsdbh = C.ensure_harness()
    C.ensure_driver()
    variant, open_sigs = model_variant()
    c = parse_case(p["case"])
    i, m, ml = one(fsdbh, c, variant)
    print("case  :", case_line(c))
    print("impl  :", i["raw"])
    print("model :", m["raw"], "  (coq/Faults.v dedup=%(dedup)d late=%(late)d)" % variant)
    print("model-case:", ml[:300])
    diffs = compare(c, i, m)
    orc = [v for v in oracle(c, i) if v[0] not in open_sigs]
    for d in diffs:
        print("differs:", d)
    for sig, text in orc:
        print("property:", text)
    return 1 if (diffs or orc) else 0
