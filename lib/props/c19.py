"""C19 — persisted version records round-trip and keep their on-disk format."""
import json
import os

from lib import common as C

SEQS = [0, 1, 255, 256, 257, 65535, 65536, 2**31, 2**32 - 1, 2**32, 2**32 + 1, 2**56 - 1, 2**56, 2**63 - 1, 2**63, 2**64 - 2, 2**64 - 1]
KEYLENS = [0, 1, 2, 39, 40, 41, 255, 256, 4096]
LONGKEYS = [65000, 65001, 65535, 65536, 100000]      # far beyond what any key-value store's own key limit would be
GOLDEN = os.path.join(C.CORPUS, "c19_golden.txt")


def hx(b):
    return b.hex() if b else "-"


def rid(rng, kind):
    if kind == 0:
        return bytes(16)
    if kind == 1:
        return b"\xff" * 16
    return bytes(rng.randrange(256) for _ in range(16))


def rkey(rng, n):
    mode = rng.randrange(4)
    if mode == 0:
        return bytes(rng.randrange(256) for _ in range(n))
    if mode == 1:
        return bytes(rng.choice(b"abcxyz/_-.09") for _ in range(n))
    if mode == 2:
        return ("ключ€" * (n // 2 + 1)).encode()[:n]
    return bytes([0]) * n


def gen(rng, tier):
    cases = []
    i = 0
    for s in SEQS:
        for kl in KEYLENS:
            for ik in range(3):
                cases.append("m%d m %d %s %s %s" % (i, s, hx(rid(rng, ik)), hx(rid(rng, (ik + 1) % 3)), hx(rkey(rng, kl))))
                i += 1
    for kl in LONGKEYS:
        cases.append("m%d m %d %s %s %s" % (i, rng.choice(SEQS), hx(rid(rng, 2)), hx(rid(rng, 2)), hx(rkey(rng, kl))))
        i += 1
    nrand = 500 if tier == "quick" else 20000
    for _ in range(nrand):
        s = rng.choice([rng.randrange(2**64), rng.randrange(2**16), rng.choice(SEQS)])
        kl = rng.choice([rng.randrange(0, 64), rng.choice(KEYLENS), rng.randrange(0, 600)])
        cases.append("m%d m %d %s %s %s" % (i, s, hx(rid(rng, rng.randrange(3))), hx(rid(rng, 2)), hx(rkey(rng, kl))))
        i += 1
    ndec = 2000 if tier == "quick" else 60000
    for j in range(ndec):
        n = rng.choice([rng.randrange(0, 81), 39, 40, 41, 0, 1, 8, 24])
        cases.append("u%d u %s" % (j, hx(bytes(rng.randrange(256) for _ in range(n)))))
    for j in range(300 if tier == "quick" else 3000):
        b = rid(rng, rng.randrange(3))
        cases.append("f%d F %s" % (j, hx(b)))
        # 36-character strings: canonical, upper-case, and damaged ones
        import uuid as _u
        s = str(_u.UUID(bytes=b))
        m = rng.randrange(5)
        if m == 1:
            s = s.upper()
        elif m == 2:
            k = rng.randrange(36)
            s = s[:k] + rng.choice("gz-:0 ") + s[k + 1:]
        elif m == 3:
            k = rng.choice([8, 13, 18, 23])
            s = s[:k] + rng.choice("0a_") + s[k + 1:]
        cases.append("p%d P %s" % (j, s.encode().hex()))
    # batches through the repository (Set in one key-value transaction or one by one, then GetAll) over a real Badger:
    # several records, keys of decreasing/increasing/equal lengths, empty keys between non-empty ones, repeated content ids
    nb = 150 if tier == "quick" else 4000
    for j in range(nb):
        k = rng.choice([0, 1, 2, 2, 3, 3, 4, 5, 8])
        recs, cids = [], []
        for q in range(k):
            cid = rng.choice(cids) if (cids and rng.random() < 0.1) else rid(rng, 2)
            cids.append(cid)
            kl = rng.choice([0, 0, 1, 3, 7, 8, 20, 64, 300]) if rng.random() < 0.97 else rng.choice(LONGKEYS)
            recs.append("%d,%s,%s,%s" % (rng.choice([rng.randrange(1, 2**40), rng.choice(SEQS)]), hx(rid(rng, rng.randrange(3))), hx(cid),
                                         hx(rkey(rng, kl))))
        cases.append("b%d B %s %s" % (j, rng.choice(["tx", "tx", "one"]), ";".join(recs) if recs else "-"))
    return cases


def nontrivial(c):
    t = c.split()
    if t[1] == "m":
        return t[5] != "-"
    if t[1] == "u":
        return t[2] != "-" and len(t[2]) >= 80
    if t[1] == "B":
        return t[3].count(";") >= 1
    return True


def golden_cases():
    out = []
    if os.path.exists(GOLDEN):
        for l in open(GOLDEN):
            l = l.strip()
            if l and not l.startswith("#"):
                c, e = l.split(" => ")
                out.append((c, e))
    return out


def run(rep):
    rng = C.rng_for(rep.seed, "c19")
    proof_ok = C.proof_step(rep, "C19")
    C.ensure_driver()
    fsdbh = C.ensure_harness()
    gold = golden_cases()
    cases = [c for c, _ in gold] + gen(rng, rep.tier)
    impl = C.run_lines(fsdbh, "codec", cases)
    model = C.run_lines(C.DRIVER, "codec", cases)
    if not (len(impl) == len(model) == len(cases)):
        raise C.CheckBroken("output length mismatch")
    for k, (c, e) in enumerate(gold):
        if model[k] != e:
            raise C.CheckBroken("model no longer reproduces golden vector %s" % c)
    nviol = 0
    for k, c in enumerate(cases):
        if impl[k] != model[k] and nviol < 3:
            nviol += 1
            kind = c.split()[1]
            what = {"m": "encoded bytes differ from the documented layout (le64 seq | tx | cid | key)",
                    "u": "decoding differs (wrong value, wrong rejection, or panic)",
                    "F": "textual id differs", "P": "id parsing differs",
                    "B": "records stored through repository/file Set are not what GetAll returns (lost, altered or invented records)"}[kind]
            rep.violation(dict(kind="correspondence", correspondence="fsdbh codec (repository/file) vs coq/Codec.v",
                               case=c, impl=impl[k], model=model[k], what=what))
    # the property itself on the implementation: decode(encode r) = r
    rt_cases, rt_expect = [], []
    for k, c in enumerate(cases):
        t = c.split()
        if t[1] == "m" and impl[k].split()[1] == "b":
            rt_cases.append("%s u %s" % (t[0], impl[k].split()[2]))
            rt_expect.append("%s r %s %s %s %s" % (t[0], t[2], t[3], t[4], t[5]))
    rt = C.run_lines(fsdbh, "codec", rt_cases)
    rt_bad = [k for k in range(len(rt_cases)) if rt[k] != rt_expect[k]]
    for k in rt_bad[:3]:
        rep.violation(dict(kind="roundtrip", what="decode(encode r) != r in the implementation",
                           case=rt_cases[k], expected=rt_expect[k], impl=rt[k]))
    distinct = len({C.case_hash(" ".join(c.split()[1:])) for c in cases if nontrivial(c)})
    kinds = {}
    for c in cases:
        kinds[c.split()[1]] = kinds.get(c.split()[1], 0) + 1
    rep.coverage.update(
        evaluations=len(cases) + len(rt_cases), distinct_nontrivial=distinct,
        rule="encode cases: 17 boundary sequences x 9 key lengths x 3 id patterns + random records; decode cases: random byte "
             "strings of length 0..80 (incl. 39/40/41); uuid format/parse cases (canonical, upper-case, damaged); golden "
             "vectors from corpus/c19_golden.txt first; batches of 0-8 records (empty keys, mixed key lengths, repeated content ids) "
             "through the real file repository over a real Badger database, in one key-value transaction or one by one, then GetAll; non-trivial = non-empty key / >=40 bytes; plus decode(encode r)=r on the implementation",
        case_kinds=kinds, golden_vectors=len(gold), roundtrips_on_impl=len(rt_cases),
        traces_validated_against_impl=len(cases), impl_vs_model_mismatches=sum(1 for k in range(len(cases)) if impl[k] != model[k]),
        samples=[dict(case=cases[k][:200], impl=impl[k][:200]) for k in (0, len(gold) + 5, len(cases) - 1)],
        proof_ok=proof_ok)
    rep.assumptions = ["bytes are modelled as N < 256; ids reach marshalFile as canonical UUID strings (uuid.Parse accepts more forms; only the canonical 36-character form is modelled)"]


def replay(rep, path):
    p = json.load(open(path))
    fsdbh = C.ensure_harness()
    C.ensure_driver()
    i = C.run_lines(fsdbh, "codec", [p["case"]])
    m = C.run_lines(C.DRIVER, "codec", [p["case"]])
    print("case :", p["case"]); print("impl :", i[0]); print("model:", m[0])
    return 0 if i[0] == m[0] else 1
