"""C16 — the worker pool runs every accepted job exactly once and stops cleanly.

Tie between coq/Pool.v and internal/utils/wpool by *schedule replay* (harness/sched.go +
harness/pool.go): the extracted model enumerates complete controller schedules, each is
replayed on the real pool through the pause points, and the sequence of pause points
reached plus the outcome (execution order, accepted jobs, queue contents, flusher lock)
must equal the model's prediction; plus randomized Send/Stop/Run programs under the real
scheduler.  Case-line format of a replay case (shared by `driver pool` and `fsdbh pool`):

    <id> <var> <nw> <run> <lprogs> <sprogs> <sched>

var = f (repaired flusher: the model this check compares with) | o (original code, used by
the recorded D14 witness), nw = workers (capacity 2*nw), run = 1: the pool has been started
once before the threads begin, lprogs = lifecycle clients (strings over T=Stop, R=Run,
separated by |), sprogs = sender clients (job numbers separated by commas, clients by |),
sched = controller steps separated by '.', <L|S|F|W><index>[!]; a lower-case letter means
the model expects the released thread to block (or to end up inside its select)."""
import json
import os
import re
import shutil
import subprocess
import tempfile
import time
from concurrent.futures import ThreadPoolExecutor

from lib import common as C

D14_WITNESS = os.path.join(C.CORPUS, "c16_d14.txt")
D15_WITNESS = os.path.join(C.CORPUS, "c16_d15.txt")
D18_WITNESS = os.path.join(C.CORPUS, "c16_d18.txt")

PANIC_TEXT = {
    "nil-ctx": "nil_pointer", "nil-cancel": "nil_pointer", "close-closed": "close_of_closed_channel",
    "close-nil": "close_of_nil_channel", "send-closed": "send_on_closed_channel", "recv-closed": "nil_parent",
    "unlock-unlocked": "unlock_of_unlocked",
}


# ---------------------------------------------------------------------------
# helpers

def read_cases(path):
    out = []
    for l in open(path):
        l = l.strip()
        if l and not l.startswith("#"):
            out.append(l)
    return out


def split_line(line):
    """-> (id, events, fields dict)"""
    head, _, tail = line.partition(" ; ")
    h = head.split()
    f = {}
    for kv in tail.split():
        k, _, v = kv.partition("=")
        f[k] = v
    return h[0], h[1:], f


def n_clients(case):
    t = case.split()
    nl = 0 if t[4] == "-" else len(t[4].split("|"))
    ns = 0 if t[5] == "-" else len(t[5].split("|"))
    return nl + ns


def as_variant(case, v):
    t = case.split()
    t[1] = v
    return " ".join(t)


def annotate(case, model_line):
    """lower-case the schedule tokens at which the model predicts that the thread blocks"""
    t = case.split()
    _, evs, _ = split_line(model_line)
    if t[6] != "-":
        toks = t[6].split(".")
        evs = evs[n_clients(case):]
        if len(evs) != len(toks):
            raise C.CheckBroken("model trace length differs from schedule: %s / %s" % (case, model_line))
        out = []
        for tok, e in zip(toks, evs):
            tok = tok[0].upper() + tok[1:]
            if e.endswith(":blocked") or e.endswith(":none"):
                tok = tok[0].lower() + tok[1:]
            out.append(tok)
        t[6] = ".".join(out)
    return " ".join(t)


def run_model(cases):
    return C.run_lines(C.DRIVER, "pool", cases, timeout=900) if cases else []


def _run_chunk(fsdbh, cmd, cases, timeout):
    """Runs the cases one process at a time; a process killed by a fatal runtime error yields a
    synthetic 'end=fatal' line for the case that died and the rest is re-run."""
    out = []
    todo = list(cases)
    while todo:
        d = tempfile.mkdtemp(prefix="verif-c16-")
        try:
            p = os.path.join(d, "cases.txt")
            with open(p, "w") as f:
                f.write("\n".join(todo) + "\n")
            try:
                r = subprocess.run([fsdbh, cmd, p] + (["-senddur", "5000", "-settle", "1000"] if cmd == "pool" else []), stdout=subprocess.PIPE, stderr=subprocess.PIPE, timeout=timeout,
                                   text=True, errors="replace")
                rc, so, se = r.returncode, r.stdout, r.stderr
            except subprocess.TimeoutExpired as ex:
                rc = 124
                so = ex.stdout.decode("utf-8", "replace") if isinstance(ex.stdout, bytes) else (ex.stdout or "")
                se = ex.stderr.decode("utf-8", "replace") if isinstance(ex.stderr, bytes) else (ex.stderr or "")
        finally:
            shutil.rmtree(d, ignore_errors=True)
        lines = [l for l in so.split("\n") if l.strip()]
        out += lines
        if rc == 0 and len(lines) == len(todo):
            return out
        if len(lines) >= len(todo):
            raise C.CheckBroken("fsdbh %s rc=%s with complete output: %s" % (cmd, rc, se[-1500:]))
        dead = todo[len(lines)]
        did = dead.split()[0]
        m = re.search(r"case %s:? ([^\n]*)" % re.escape(did), se)
        evs = m.group(1).strip() if m else ""
        evs = re.sub(r"(fatal error|panic):.*$", "", evs).strip()
        msgs = re.findall(r"^(?:fatal error|panic): ([^\n]*)", se, re.M) + re.findall(r" (?:fatal error|panic): ([^\n]*)", se)
        why = "timeout" if rc == 124 else ("+".join(sorted(set(x.strip().replace(" ", "_") for x in msgs))) or "rc=%s" % rc)
        out.append("%s %s ; end=fatal panic=%s" % (did, evs, why))
        todo = todo[len(lines) + 1:]
    return out


def run_impl(fsdbh, cases, cmd="pool", timeout=900, jobs=None):
    if not cases:
        return []
    jobs = jobs or C.NCPU
    n = max(1, min(jobs, len(cases)))
    size = (len(cases) + n - 1) // n
    chunks = [cases[i:i + size] for i in range(0, len(cases), size)]
    with ThreadPoolExecutor(max_workers=len(chunks)) as ex:
        res = list(ex.map(lambda c: _run_chunk(fsdbh, cmd, c, timeout), chunks))
    out = [l for r in res for l in r]
    if len(out) != len(cases):
        raise C.CheckBroken("fsdbh %s: %d output lines for %d cases" % (cmd, len(out), len(cases)))
    return out


def jobs_of(s):
    return [] if s in ("-", "", None) else [int(x) for x in s.split(",")]


def corresponds(model_line, impl_line):
    """same pause-point trace; when the model run is complete (quiet) the same outcome; a model
    panic must show up as a panic of that kind"""
    _, mev, mf = split_line(model_line)
    _, iev, jf = split_line(impl_line)
    if jf.get("end") == "fatal":
        # the process died inside the last step (a panic in Stop is followed by the deferred runM.Unlock, which is a
        # fatal "unlock of unlocked mutex" when the other Stop has already unlocked): its event was never printed
        return (mf["end"] == "panic" and iev in (mev, mev[:-1]) and
                (PANIC_TEXT.get(mf["panic"], "?") in jf.get("panic", "") or
                 (mf["panic"] == "close-closed" and "unlock_of_unlocked" in jf.get("panic", ""))))
    if mev != iev:
        return False
    if mf["end"] == "quiet":
        return (jf.get("end") == "quiet" and mf["log"] == jf.get("log") and mf["acc"] == jf.get("acc")
                and len(jobs_of(mf["chan"])) == int(jf.get("chan", "-1"))
                and (1 if jobs_of(mf["def"]) else 0) == int(jf.get("def", "-1"))
                and mf["flock"] == jf.get("flock") and mf["live"] == jf.get("live"))
    if mf["end"] == "panic":
        return jf.get("end") in ("panic", "fatal") and PANIC_TEXT.get(mf["panic"], "?") in jf.get("panic", "")
    return True


def oracle(case, impl_line):
    """the property itself, evaluated on the implementation's own outcome (after the schedule the
    harness lets everything run freely until nothing moves).  None if satisfied."""
    _, _, f = split_line(impl_line)
    end = f.get("end")
    if end in ("panic", "fatal"):
        return "panic: " + f.get("panic", "?")
    if end == "deadlock":
        return "deadlock: a Send/Stop/Run call never returns (%s)" % f.get("tail", "")
    counts = {}
    if f.get("counts", "-") != "-":
        for kv in f["counts"].split(","):
            j, _, n = kv.partition(":")
            counts[int(j)] = int(n)
    for j, n in sorted(counts.items()):
        if n > 1:
            return "executed twice: job %d ran %d times" % (j, n)
    t = case.split()
    has_life = t[4] != "-"
    if t[3] == "1" and not has_life:     # started once and nobody calls Stop: the pool is running
        if f.get("live") != "1":
            return "workers gone: the pool is running (nobody called Stop) but no worker goroutine is alive"
        if end == "open":
            return "not idle: the running pool does not become idle although no Send is in progress"
        missing = [j for j in jobs_of(f.get("acc")) if counts.get(j, 0) == 0]
        if missing:
            return ("stranded: accepted job %d was never executed although the pool is running and idle "
                    "(deferred list %s, flusher lock %s, channel %s)" % (
                        missing[0], "non-empty" if f.get("def") == "1" else "empty",
                        "held" if f.get("flock") == "1" else "free", f.get("chan")))
        if f.get("def") == "1":
            return "stranded: the deferred list is not empty although the pool is idle"
    return None


def sig_of(why):
    return why.split(":")[0][:40]


def order_key(case):
    t = case.split()
    return (len(t[5]), len(t[6]), t[6])


def nontrivial(model_line):
    return "wpool.lazy.enter" in model_line


# ---------------------------------------------------------------------------
# generators

FAMILY = [  # (sender programs, probes, exhaustive in quick?)
    ("0", 1, True), ("0,1", 1, True), ("0,1,2", 2, True), ("0|1", 1, True),
    ("0,1|2", 1, False), ("0|1,2", 1, False), ("0|1|2", 1, False),
]


def enumerate_family(quick, rng):
    reqs = ["e%d f 1 1 - %s eager %d 90" % (i, sp, pr) for i, (sp, pr, _) in enumerate(FAMILY)]
    out = C.run_lines(C.DRIVER, "pool-enum", reqs, timeout=900)
    by = {}
    for l in out:
        by.setdefault(l.split(".")[0], []).append(l)
    cases, stats = [], {}
    for i, (sp, pr, exh) in enumerate(FAMILY):
        ls = by.get("e%d" % i, [])
        stats[sp] = dict(enumerated=len(ls), probes=pr)
        if quick and not exh and len(ls) > 1500:
            rng.shuffle(ls)
            ls = ls[:1500]
        stats[sp]["replayed"] = len(ls)
        cases += ls
    return cases, stats


def scenario_cases():
    """hand-written Stop/Run scenarios whose selects are never ambiguous (single lifecycle thread)"""
    return [
        # Stop on an idle running pool, then Stop again (not running), Run, Stop
        "sc0 f 1 1 TTRT - W0.W0.L0.W0.L0.L0.L0.L0.L0.L0.L0.L0.W0.W0.L0.W0.L0.L0.L0",
        # Stop while a sender is inside Send (before the select): Stop must wait for it
        "sc1 f 1 1 T 0,1,2,3 W0.W0.S0.S0.W0.S0.S0.S0.S0.S0.L0.L0.S0.L0.L0.W0",
        # Stop with a busy worker: Stop waits for the job; queued jobs are dropped
        "sc2 f 1 1 T 0,1 W0.W0.S0.S0.S0.S0.L0.L0.L0.W0.W0.L0.L0",
        # Send after Stop returned: not accepted, returns at once; Run; Send is executed
        "sc3 f 1 1 TR 0,1 W0.W0.L0.W0.L0.L0.L0.S0.L0.L0.L0.W0.W0.S0.S0.W0.W0",
    ]


def rand_cases(rng, n):
    out = []
    for i in range(n):
        nw = rng.choice([1, 1, 2, 3])
        ns = rng.choice([1, 2, 3, 4])
        per = rng.choice([2, 4, 8, 12])
        life = rng.choice(["-", "-", "-", "T", "TR", "TRT", "TTR", "RT", "TRTR"])
        gated = rng.choice([0, 30, 60, 100])
        out.append("r%d %d %d %d %d %s %d" % (i, rng.randrange(1, 1 << 30), nw, ns, per, life, gated))
    return out


# ---------------------------------------------------------------------------
# in-Coq evaluation (vm_compute) of a sample, against the extracted model's output

POINTS = {"wpool.send.enter": "PpSendEnter", "wpool.send.beforeSelect": "PpSendBeforeSelect", "wpool.lazy.enter": "PpLazyEnter",
          "wpool.lazy.afterTryLockFail": "PpLazyFail", "wpool.stop.enter": "PpStopEnter", "wpool.stop.notRunning": "PpStopNotRunning",
          "wpool.stop.afterCancel": "PpStopAfterCancel", "wpool.stop.afterSendWait": "PpStopAfterSendWait",
          "wpool.stop.beforeClose": "PpStopBeforeClose", "wpool.run.enter": "PpRunEnter", "wpool.run.afterTryLock": "PpRunAfterTryLock", "wpool.run.afterCtx": "PpRunAfterCtx",
          "wpool.flusher.loop": "PpFlLoop", "wpool.flusher.afterPop": "PpFlAfterPop", "wpool.flusher.afterPopNil": "PpFlAfterPopNil",
          "wpool.flusher.beforeExit": "PpFlBeforeExit", "wpool.worker.start": "PpWkStart", "wpool.exec.begin": "PpWkBegin",
          "wpool.exec.end": "PpWkEnd"}
PKS = {"nil-ctx": "PkNilCtx", "nil-cancel": "PkNilCancel", "close-closed": "PkCloseClosed", "close-nil": "PkCloseNil",
       "send-closed": "PkSendClosed", "recv-closed": "PkRecvClosed", "unlock-unlocked": "PkUnlock", "out-of-model": "PkOutOfModel"}


def coq_tid(name):
    return "(Pt%s %s)" % (name[0].upper(), name[1:])


def coq_list(xs):
    return "[" + "; ".join(xs) + "]"


def coq_example(k, case, model_line):
    t = case.split()
    lprogs = [] if t[4] == "-" else [coq_list(["PlStop" if ch == "T" else "PlRun" for ch in (c if c != "e" else "")])
                                     for c in t[4].split("|")]
    sprogs = [] if t[5] == "-" else [coq_list([x for x in (c.split(",") if c != "e" else [])]) for c in t[5].split("|")]
    sched = []
    if t[6] != "-":
        for tok in t[6].split("."):
            alt = tok.endswith("!")
            tok = tok.rstrip("!")
            sched.append("(%s, %s)" % (coq_tid(tok), "true" if alt else "false"))
    _, evs, f = split_line(model_line)
    evs = evs[n_clients(case):]
    ev = []
    for e in evs:
        if "@" in e:
            th, pt = e.split("@")
            ev.append("(%s, PoAt %s)" % (coq_tid(th), POINTS[pt]))
        else:
            th, kind = e.split(":")
            ev.append("(%s, %s)" % (coq_tid(th), {"blocked": "PoBlocked", "done": "PoDone", "none": "PoNone"}[kind]))
    js = lambda s: coq_list([str(j) for j in jobs_of(s)])
    panic = "None" if f["panic"] == "none" else "(Some %s)" % PKS[f["panic"]]
    return ("Example ck%d : let p := pl_mkpar %s %s in let s0 := pl_init p %s %s %s in\n"
            "  let r := pl_trace p %s s0 [] in let s := snd r in\n"
            "  (fst r, (rev (pl_log s), pl_chan s, pl_def s, pl_flock s, pl_panic s, pl_quiet p s))\n"
            "  = (%s, (%s, %s, %s, %s, %s, %s)).\nProof. vm_compute. reflexivity. Qed.\n"
            % (k, "true" if t[1] == "f" else "false", t[2], "true" if t[3] == "1" else "false",
               coq_list(lprogs), coq_list(sprogs), coq_list(sched), coq_list(ev), js(f["log"]), js(f["chan"]), js(f["def"]),
               "true" if f["flock"] == "1" else "false", panic,
               "true" if f["end"] in ("quiet", "panic") else "false"))


def vm_crosscheck(pairs):
    d = tempfile.mkdtemp(prefix="verif-c16-")
    try:
        with open(os.path.join(d, "cases.v"), "w") as fh:
            fh.write("From Coq Require Import List.\nFrom FsDb Require Import Conc Pool.\nImport ListNotations.\n")
            for k, (c, m) in enumerate(pairs):
                fh.write(coq_example(k, c, m))
        rc, out = C.sh("timeout 600 coqc -Q %s FsDb cases.v" % C.COQ, cwd=d, timeout=650)
        if rc != 0:
            raise C.CheckBroken("extracted model and vm_compute disagree, or cases.v is ill-formed (TCB alarm):\n" + out[-3000:])
        return len(pairs)
    finally:
        shutil.rmtree(d, ignore_errors=True)


# ---------------------------------------------------------------------------
# failing-input search

def violating_prefixes(fsdbh, cases, tries=1):
    """For each case try every prefix of its schedule (after the prefix the harness lets everything
    run freely) and evaluate the property oracle on the implementation's own outcome.  Returns
    {case: (prefix_case, model_line, impl_line, why)} for the shortest violating prefix."""
    allp, owner = [], []
    for case in cases:
        t = case.split()
        toks = [] if t[6] == "-" else t[6].split(".")
        for n in range(0, len(toks) + 1):
            u = list(t)
            u[0] = "%s.p%d" % (t[0], n)
            u[6] = ".".join(x[0].upper() + x[1:] for x in toks[:n]) or "-"
            allp.append(" ".join(u))
            owner.append(case)
    pm = run_model([as_variant(c, "f") for c in allp])
    pa = [annotate(c, m) for c, m in zip(allp, pm)]
    res = {}
    for _ in range(tries):
        pi = run_impl(fsdbh, pa)
        for o, c, m, i in zip(owner, pa, pm, pi):
            if o in res:
                continue
            why = oracle(c, i)
            if why:
                res[o] = (c, m, i, why)
    return res


def report_property(rep, origin, found, extra=None):
    c, m, i, why = found
    t = c.split()
    d = dict(kind="property", what=why, origin=origin, case=c, workers=int(t[2]), lifecycle_clients=t[4], sender_clients=t[5],
             schedule=t[6], impl=i, model_fixed=m,
             note="schedule = thread released at each position (S<i> sender client, L<i> client calling Stop/Run, F<n> the n-th "
                  "deferred-send flusher goroutine, W<k> worker; lower case = the model expects it to block); after its end "
                  "every thread runs freely and the outcome is taken when nothing moves any more")
    d.update(extra or {})
    rep.violation(d)


def report_correspondence(rep, origin, case, model_line, impl_line):
    rep.violation(dict(kind="correspondence", correspondence="fsdbh pool (wpool.Pool) vs coq/Pool.v pl_fixed",
                       what="trace of pause points / outcome differs from the model; no schedule prefix violates the property oracle",
                       origin=origin, case=case, impl=impl_line, model_fixed=model_line), no_input=True)


def known_by_text(why, known):
    """an open known finding whose signature names this failure text (for failures that do not need a particular case)"""
    for e in known:
        rx = e.get("signature", {}).get("failure_regex")
        if e.get("status") == "open" and rx and re.search(rx, why.replace("_", " ")):
            return e
    return None


def known_match(why, case, known):
    """does an open known finding cover this violation?  (same defect id, same kind of failure)"""
    for e in known:
        if e.get("status") != "open":
            continue
        sg = e.get("signature", {})
        for w in sg.get("witnesses", []):
            if w.get("case_id") == case.split()[0].split(".")[0] and w.get("failure", "") in why:
                return e
    return None


# ---------------------------------------------------------------------------

def run(rep):
    rng = C.rng_for(rep.seed, "c16")
    proof_ok = C.proof_step(rep, "C16")
    C.ensure_driver()
    fsdbh = C.ensure_harness()
    quick = rep.tier == "quick"
    t_start = time.time()
    evaluations = 0
    known = C.known_findings("C16")

    # (a) recorded witnesses first
    #   D14 (repaired): must not reproduce; the property oracle decides
    wit_report = []
    d14 = read_cases(D14_WITNESS) + read_cases(D18_WITNESS)
    m_own = run_model(d14)
    m_fix = run_model([as_variant(c, "f") for c in d14])
    ann = [annotate(c, m) for c, m in zip(d14, m_own)]   # as the unrepaired model blocks
    impl = run_impl(fsdbh, ann)
    evaluations += len(d14)
    for c, mo, mf, a, i in zip(d14, m_own, m_fix, ann, impl):
        why = oracle(a, i)
        did = "D18" if c.split()[0].startswith("d18") else "D14"
        wit_report.append(dict(defect=did, case=c, impl=i, oracle=why or "ok",
                               behaves_like_unrepaired_model=corresponds(mo, i) and c.split()[1] != "f"))
        if why:
            report_property(rep, "corpus witness of %s (the repaired defect is back)" % did, (a, mf, i, why),
                            dict(model_unrepaired=mo))
    #   D15 (open known finding): each witness in its own process; must still panic as the model says
    d15 = read_cases(D15_WITNESS) if os.path.exists(D15_WITNESS) else []
    m15 = run_model(d15)
    a15 = [annotate(c, m) for c, m in zip(d15, m15)]
    i15 = run_impl(fsdbh, a15, jobs=len(a15) or 1)
    evaluations += len(d15)
    for c, m, a, i in zip(d15, m15, a15, i15):
        why = oracle(a, i)
        e = known_match(why or "", a, known)
        wit_report.append(dict(defect="D15", case=c, impl=i[:600], oracle=why or "ok", model=m, matches_model=corresponds(m, i)))
        if why and e:
            rep.known_finding("%s still reproduces (%s): %s" % (e["id"], c.split()[0], why[:160]))
        elif why:
            report_property(rep, "corpus witness of D15 (no matching open known finding)", (a, m, i, why))
        elif e is None:
            pass
    for e in known:
        if (e.get("status") == "open" and "failure_regex" not in e.get("signature", {})
                and not any(w["defect"] == e["id"] and w["oracle"] != "ok" for w in wit_report)):
            print("note: known finding %s did not reproduce on this tree (entry can be closed)" % e["id"])

    # (b) every replayable schedule of the model for the small family + lifecycle scenarios
    fam, fam_stats = enumerate_family(quick, rng)
    scen = scenario_cases()
    rng.shuffle(fam)
    cases = scen + fam
    model = run_model(cases)
    ann = [annotate(c, m) for c, m in zip(cases, model)]
    # a first slice decides whether the rest is worth replaying: when the property already fails on many of its cases
    # (every failing case costs the whole settle time-out) the remaining cases are skipped
    first = min(len(cases), len(scen) + 320)
    impl = run_impl(fsdbh, ann[:first])
    nfail = len([k for k in range(first) if oracle(ann[k], impl[k])])
    family_cut = nfail > 16
    if family_cut:
        cases, model, ann = cases[:first], model[:first], ann[:first]
    else:
        impl += run_impl(fsdbh, ann[first:])
    evaluations += len(cases)
    bad = [k for k in range(len(cases)) if not corresponds(model[k], impl[k])]
    orc = [k for k in range(len(cases)) if oracle(ann[k], impl[k])]
    # a trace that differs without violating the property may be a timing artefact (a goroutine delayed for longer than
    # SendDuration takes the deferred path although the channel has room): only differences that persist count
    flaky = 0
    for _ in range(2):
        again = [k for k in bad if k not in orc]
        if not again or len(again) > 200:
            break
        ri2 = run_impl(fsdbh, [ann[k] for k in again])
        for k, i2 in zip(again, ri2):
            if oracle(ann[k], i2):
                impl[k] = i2
                orc.append(k)
            elif corresponds(model[k], i2):
                bad.remove(k)
                flaky += 1
    kinds = set()
    cand = []
    for k in sorted(orc, key=lambda k: order_key(ann[k])):
        sg = sig_of(oracle(ann[k], impl[k]))
        if sg not in kinds:
            kinds.add(sg)
            cand.append(k)
    trace_only = sorted(set(bad) - set(orc), key=lambda k: order_key(ann[k]))[:40]
    found = violating_prefixes(fsdbh, [ann[k] for k in cand + trace_only], tries=3) if (cand or trace_only) else {}
    fam_kinds = set()
    for k in cand + trace_only:
        fnd = found.get(ann[k])
        if fnd is None and k in orc:
            fnd = (ann[k], model[k], impl[k], oracle(ann[k], impl[k]))
        if fnd and known_by_text(fnd[3], known):
            e = known_by_text(fnd[3], known)
            rep.known_finding("%s reproduced in the schedule family (%s): %s" % (e["id"], fnd[0], fnd[3][:160]))
            fam_kinds.add("known")
            continue
        if fnd and sig_of(fnd[3]) not in fam_kinds and len(fam_kinds) < 4:
            fam_kinds.add(sig_of(fnd[3]))
            report_property(rep, "schedule family (b)", fnd)
    if (bad or orc) and not fam_kinds:
        k = (trace_only or cand)[0]
        report_correspondence(rep, "schedule family (b)", ann[k], model[k], impl[k])

    # (c) randomized Send/Stop/Run programs under the real scheduler
    rc = rand_cases(C.rng_for(rep.seed, "c16-rand"), 2000 if quick else 30000)
    ri = run_impl(fsdbh, rc[:240], cmd="pool-rand")
    if len([l for l in ri if " ok " not in l + " "]) > 12:
        rc = rc[:240]       # already failing broadly (each hanging call costs its time-out): the rest is skipped
    else:
        ri += run_impl(fsdbh, rc[240:], cmd="pool-rand")
    evaluations += len(rc)
    rbad = [k for k in range(len(rc)) if " ok " not in ri[k] + " "]
    slow = 0
    maxsend = 0
    accepted = executed = 0
    for l in ri:
        m = re.search(r"maxsend_us=(\d+) slow=(\d+)", l)
        if m:
            maxsend = max(maxsend, int(m.group(1)))
            slow += int(m.group(2))
        m = re.search(r"accepted=(\d+) executed=(\d+)", l)
        if m:
            accepted += int(m.group(1))
            executed += int(m.group(2))
    seen = set()
    for k in rbad:
        why = ri[k].split(" ", 2)[2] if ri[k].count(" ") >= 2 else ri[k]
        e = known_by_text(why, known)
        if e:
            if e["id"] not in seen:
                seen.add(e["id"])
                rep.known_finding("%s reproduced by the randomized programs (%s): %s" % (e["id"], rc[k], why.replace("_", " ")[:160]))
            continue
        sg = re.sub(r"\d+", "N", why)[:60]
        if sg in seen or len([x for x in seen if not x.startswith("D")]) >= 3:
            continue
        seen.add(sg)
        rep.violation(dict(kind="property", origin="randomized Send/Stop/Run programs (c)", what=why.replace("_", " "),
                           case=rc[k], impl=ri[k],
                           note="case = <id> <seed> <workers> <senders> <jobs per sender> <lifecycle ops of one thread> <% gated jobs>; "
                                "real scheduler, no pauses: replay re-runs the program up to 30 times"))

    # a seeded sample of the cases (and the witnesses under their own variant) re-evaluated inside Coq
    idx = list(range(len(cases)))
    rng.shuffle(idx)
    sample = [(cases[k], model[k]) for k in idx[:120 if quick else 1000]]
    sample += list(zip(d14, m_own)) + list(zip(d15, m15)) + [(cases[k], model[k]) for k in range(len(scen))]
    vm = vm_crosscheck(sample)

    distinct = len({C.case_hash(" ".join(c.split()[1:])) for c, m in zip(cases, model) if nontrivial(m)})
    pts = {}
    for m in model:
        for e in split_line(m)[1]:
            p = e.split("@")[1] if "@" in e else e.split(":")[1]
            pts[p] = pts.get(p, 0) + 1
    rep.coverage.update(
        evaluations=evaluations, distinct_nontrivial=distinct,
        rule="(a) the recorded witness schedules first: corpus/c16_d14.txt (stranded deferred job; repaired: the property oracle "
             "must hold) and corpus/c16_d15.txt (open known finding D15: two concurrent Stops, Send before the first Run, Stop "
             "inside Run; each in its own process); (b) the extracted model enumerates, for the sender programs " +
             ", ".join(sp for sp, _, _ in FAMILY) + " against 1 worker / capacity 2 (the worker can be held before its select, "
             "so the third Send takes the deferred path), every complete schedule a pause-point controller can replay "
             "(eager-normal: a goroutine that is freshly spawned, inside its select or blocked in a primitive moves as soon as it "
             "can), with probes (a thread the model says is not enabled is released and must block: flusher on a full channel, "
             "lazy Send / flusher on the list lock), plus 4 Stop/Run scenarios; every schedule is replayed on the real pool; "
             "pause-point trace, execution order, accepted jobs, channel/deferred-list contents and the flusher lock are compared "
             "with the model and the property oracle (no panic, no call that never returns, no job twice, every accepted job of "
             "a running idle pool executed, nothing stranded) is evaluated on every implementation run; (c) randomized programs "
             "(1-4 senders x 2-12 jobs, 1-3 workers, 0-100% of the jobs blocked on a gate the harness opens, one thread issuing "
             "Stop/Run sequences) under the real scheduler: counts = 1 for every job accepted in the final running epoch once the "
             "pool is idle (by counting hook events), no job twice, no panic, Stop returns and only after running jobs finished, "
             "no job starts while stopped. non-trivial = the run contains a deferred Send; distinct = by (programs, schedule)",
        exhaustive=True,
        exhaustive_part="(b): all eager-normal complete schedules for the sender programs marked exhaustive in schedules_enumerated "
                        "(quick); for the others a seeded sample of 1500 each in quick, all of them in thorough",
        schedules_enumerated=fam_stats, scenarios=len(scen),
        traces_validated_against_impl=len(cases) + len(d14) + len(d15),
        impl_vs_model_mismatches=len(bad), oracle_failures=len(orc), timing_artefacts_retried=flaky,
        family_cut_short_after_failures=family_cut,
        witnesses=wit_report,
        random_programs=dict(cases=len(rc), bad=len(rbad), jobs_accepted=accepted, jobs_executed=executed,
                             max_send_latency_us=maxsend, sends_slower_than_100ms=slow,
                             note="Send latency is support only (timing): measured with all workers blocked on gates in the gated=100 cases"),
        pause_point_events=pts, vm_compute_crosschecked=vm,
        refuted_theorems=["C16_eventually_run_refuted_orig", "C16_no_panic_refuted_restart_orig", "C16_no_panic_refuted_two_stops",
                          "C16_no_panic_refuted_send_before_run", "C16_no_panic_refuted_stop_during_run"],
        partial_theorems=[t for t in rep.coverage.get("theorems", []) if t.endswith("_partial")],
        samples=[dict(case=ann[k], model=model[k][:500], impl=impl[k][:500])
                 for k in (0, len(scen), len(cases) // 2, len(cases) - 1) if 0 <= k < len(cases)],
        replay_wall_s=round(time.time() - t_start, 2), proof_ok=proof_ok)
    rep.assumptions = [
        "step granularity = the code between two pause points (DESIGN Appendix A); interleavings inside a step and the runtime's "
        "Mutex/WaitGroup/channel/select/timer implementation are outside the theorems; in particular sync.WaitGroup's own misuse "
        "check (Add racing with a Wait that is being released) is below this granularity",
        "Send's time-out branch is modelled as enabled only when the channel is full (SendDuration = 1 ms in the replay)",
        "the theorems that hold are stated for programs in which one thread issues all Stop/Run calls and no Send starts before "
        "the first Run returned; everything else is the open known finding D15 (refutation witnesses are theorems and are replayed)",
        "replay covers the eager-normal schedules only: a goroutine blocked in a primitive or inside a select cannot be delayed",
        "jobs accepted before a Stop and not yet started are dropped by Stop (workers do not drain the channel; Stop clears the "
        "deferred list): read as allowed, the property promises exactly-once only while the pool keeps running",
    ]


def replay(rep, path):
    p = json.load(open(path))
    fsdbh = C.ensure_harness()
    C.ensure_driver()
    case = p["case"]
    if len(case.split()) == 7 and case.split()[1] in ("f", "o"):
        m = run_model([as_variant(case, "f")])[0]
        a = annotate(case, m)
        worst = None
        for k in range(5):
            i = run_impl(fsdbh, [a])[0]
            why = oracle(a, i)
            if k == 0 or why:
                worst = (i, why)
            if why:
                break
        i, why = worst
        print("case  :", a)
        print("impl  :", i)
        print("model :", m, "(pl_fixed)")
        if case.split()[1] != "f":
            print("model :", run_model([case])[0], "(variant %s)" % case.split()[1])
        print("oracle:", why or "ok")
        print("trace :", "equal" if corresponds(m, i) else "DIFFERENT")
        if p.get("kind") == "property" or case.split()[1] != "f":
            return 1 if why else 0
        return 1 if (why or not corresponds(m, i)) else 0
    # randomized program
    print("case  :", case)
    for k in range(30):
        i = run_impl(fsdbh, [case], cmd="pool-rand")[0]
        if " ok " not in i + " ":
            print("impl  :", i, "(run %d)" % (k + 1))
            return 1
    print("impl  :", i, "(30 runs, all ok)")
    return 0
