"""Cases with one `par a || b || c` line: the concurrent group must be equivalent to ONE sequential order (model)."""
import itertools

from lib import histcheck as H


def par_index(case):
    ls = case.split("\n")
    return next(k for k, l in enumerate(ls) if l.startswith("par "))


def groups_of(case):
    ls = case.split("\n")
    return [g.strip() for g in ls[par_index(case)][4:].split("||")]


def sequentialisations(case):
    ls = case.split("\n")
    i = par_index(case)
    groups = groups_of(case)
    out = []
    for perm in itertools.permutations(range(len(groups))):
        out.append((perm, i, len(groups), "\n".join(ls[:i] + [groups[p] for p in perm] + ls[i + 1:])))
    return out


def fold_back(perm, i, n, out_lines):
    j = i - 1           # the keytab line has no output
    res = [None] * n
    for pos, p in enumerate(perm):
        res[p] = out_lines[j + pos]
    return out_lines[:j] + [" || ".join(res)] + out_lines[j + n:]


def match_sequential(case, impl_out):
    """returns the permutation whose model run equals the implementation's output, or None"""
    seqs = sequentialisations(case)
    mouts = H.run_model("hist", [s[3] for s in seqs])
    for (perm, i, n, sc), mo in zip(seqs, mouts):
        if fold_back(perm, i, n, H.canon(sc, mo)) == impl_out:
            return perm
    return None


def all_sequential_outputs(case):
    seqs = sequentialisations(case)
    mouts = H.run_model("hist", [s[3] for s in seqs])
    return [fold_back(perm, i, n, H.canon(sc, mo)) for (perm, i, n, sc), mo in zip(seqs, mouts)]
