"""Lock/effect skeleton of internal/usecase/core: regenerated from /repo's source on every run by the translator
`fsdbh gen-lockskel` (harness/lockskel.go), then the theorems of coq/LockSkelCheck.v are re-checked on it.

  sk = lockskel.check(rep, fsdbh, ops=[...])     at the start of a property's run()
  lockskel.conclude(rep, sk, theorem)            at its end: a broken obligation with no concrete failing input found by
                                                 the property's own search is reported `no-failing-input-found`
"""
import os
import re
import shutil
import tempfile

from lib import common as C

GEN = os.path.join(C.COQ, "LockSkelGen.v")


def check(rep, fsdbh, ops):
    rc, out, err = C.sh2([fsdbh, "gen-lockskel", C.REPO], timeout=120)
    if rc != 0 or "Definition skeleton" not in out:
        sk = dict(status="translator-failed", detail=(err or out)[-2000:], failing=[("?", "translator failed")], ops=ops)
        rep.coverage["lock_skeleton"] = dict(status=sk["status"])
        return sk
    pinned = open(GEN).read()
    npaths = {m.group(1): int(m.group(2)) for m in re.finditer(r'\("([\w.]+)", \(\* (\d+) paths', out)}
    if out == pinned:
        # the build of coq/ (ensure_coq) has checked fsdb_skeleton_ok / fsdb_skeleton_covers on exactly this text
        sk = dict(status="same-as-pinned", failing=[], ops=ops, paths=npaths)
    else:
        d = tempfile.mkdtemp(prefix="verif-lsk-")
        try:
            for n in ("LockSkel.v", "LockSkelCheck.v"):
                shutil.copy(os.path.join(C.COQ, n), os.path.join(d, n))
            with open(os.path.join(d, "LockSkelGen.v"), "w") as f:
                f.write(out)
            ok, log = True, ""
            for n in ("LockSkel.v", "LockSkelGen.v", "LockSkelCheck.v"):
                rc, o = C.sh("timeout 300 coqc -Q . FsDb %s" % n, cwd=d, timeout=330)
                if rc != 0:
                    ok, log = False, "coqc %s:\n%s" % (n, o[-2500:])
                    break
            failing = []
            if not ok:
                # which (operation, path) pairs break the discipline: evaluate `failing` without the theorems
                src = open(os.path.join(d, "LockSkelCheck.v")).read()
                src = re.sub(r"Theorem fsdb_skeleton_\w+ :.*?Qed\.", "", src, flags=re.S)
                src += "\nDefinition F := Eval vm_compute in (map fst failing, covers skeleton).\nPrint F.\n"
                with open(os.path.join(d, "LockSkelCheck.v"), "w") as f:
                    f.write(src)
                rc, o = C.sh("timeout 300 coqc -Q . FsDb LockSkelCheck.v", cwd=d, timeout=330)
                names = re.findall(r'"([\w.]+)"', o.split("F =")[-1]) if rc == 0 else []
                failing = sorted(set(names)) or ["?"]
                if rc == 0 and "false" in o.split("F =")[-1]:
                    failing.append("(an operation the models rely on is missing from the skeleton)")
            sk = dict(status="regenerated-ok" if ok else "broken", failing=failing, log=log, ops=ops, paths=npaths,
                      generated=out if not ok else None)
        finally:
            shutil.rmtree(d, ignore_errors=True)
    rel = [f for f in sk["failing"] if f in ops or f.startswith(("?", "(")) or any(o.endswith(".") and f.startswith(o) for o in ops)]
    sk["relevant"] = rel
    rep.coverage["lock_skeleton"] = dict(status=sk["status"], operations=sk.get("paths"), failing_operations=sk["failing"],
                                         relevant_to_this_property=rel,
                                         translator="fsdbh gen-lockskel (harness/lockskel.go) over internal/usecase/core/*.go",
                                         theorems="LockSkelCheck.fsdb_skeleton_ok, fsdb_skeleton_covers re-checked on the regenerated text")
    return sk


def broken(sk):
    return bool(sk.get("relevant"))


def conclude(rep, sk, what):
    """after the property's own search for a concrete failing input"""
    if not broken(sk):
        return
    if rep.violations:
        rep.coverage["lock_skeleton"]["concrete_input"] = "found by this run (see the replay files)"
        return
    rep.violation(dict(kind="proof-obligation-broken",
                       what="the lock/effect skeleton regenerated from internal/usecase/core no longer satisfies the discipline "
                            "the model assumes (%s); operations: %s" % (what, ", ".join(sk["relevant"])),
                       theorem="LockSkelCheck.fsdb_skeleton_ok (coq/LockSkel.v path_ok) over the regenerated coq/LockSkelGen.v",
                       failing_operations=sk["relevant"], coqc_output=sk.get("log"), regenerated_skeleton=sk.get("generated"),
                       searched="the concurrent programs of this run found no input on which the property fails"), no_input=True)
