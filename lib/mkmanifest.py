#!/usr/bin/env python3
"""Regenerates /verif/MANIFEST.json from the table below."""
import json
import os

ROOT = os.path.dirname(os.path.dirname(os.path.abspath(__file__)))
BASELINE = ("for m in $(cat /w/out/gomods.txt); do MF=$(cd /repo/$m && . /w/out/goenv.sh && gomodflag); "
            "(cd /repo/$m && go test $MF -json -vet=off -count=1 -timeout 25m ./...); done")

NOTE_COMMON = ("Trusted: Coq 8.16.1 kernel (+vm_compute), no axioms (Print Assumptions parsed on every run), "
               "ExtrOcamlBasic extraction + OCaml shim (cross-checked by vm_compute on a sample), the Go harness and "
               "verif-tagged accessors, python generators. The model is hand-written; it is tied to /repo by the "
               "correspondence run only.")

CHECKS = {
    "C01": dict(
        text="Theorem (Coq, every autocommit history of any length over any keys, collector/cleaner anywhere): the faithful model "
             "of fs_db's version store answers exactly as a key-value map (C01_kv_refinement), with the map's laws in the "
             "property's words (get after set / delete, value until next write, empty key and missing key change nothing, "
             "GetKeys sorted, duplicate-free and exactly the readable keys). Tie: seeded histories through the real inline "
             "client (all three write forms, both read forms, boundary content lengths, prefix-related and multi-byte keys) are "
             "compared step by step with the extracted model and the extracted map machine. "
             "The harness keeps the slices returned by the last Gets and re-hashes them after every later Get (the caller owns what Get returned); a quarter of the histories pass request-scoped contexts; empty-key writes go through Set, SetReader and Create alike.",
        design="7/C01", technique="Coq refinement proof (model = abstract machine = key-value map) + differential correspondence run",
        note="Contents are atomic values at this layer (bytes compared by length+SHA-256 in the run). Reopen is excluded from the "
             "theorem (C05). " + NOTE_COMMON),
    "C02": dict(
        text="Theorem (Coq, induction over every sequential history of Begin/Set/Delete/Get/GetKeys/Commit/Rollback over any "
             "number of open transactions of any levels plus autocommit, with the collector and cleaner at any position): the "
             "faithful model (global sequence counter, per-transaction stores + all-store, two-phase commit with per-key "
             "re-sequencing, tombstones, registry, cleaner queue) produces exactly the outputs of the abstract machine whose "
             "read rules are the property's clauses (C02_reads_refine, via a 10-clause model invariant and a simulation "
             "relation). Tie: seeded histories with up to 6 open transactions and probes of all readers are run through the "
             "real client and compared step by step with the extracted model and abstract machine.",
        design="7/C02", technique="Coq refinement proof by simulation + differential correspondence run",
        note="Hypotheses of the use-case-layer theorem: no write through a non-open handle (discharged by the client layer, C13_every_history_refines), no Reopen. Snapshot lookup is the "
             "linear-scan specification justified by C18's theorems. " + NOTE_COMMON),
    "C03": dict(
        text="Theorems (Coq): on the abstract machine, Commit fails iff the transaction is RR/SER and a key it wrote had a value "
             "committed since it began; RU/RC never conflict; a successful commit installs the last value of every written key "
             "(deletions included) and changes no other key's committed value; rollback and failed commit keep every committed "
             "value and leave no entry of the transaction; the model's two-phase commit simulates it (C03_commit_simulates) for "
             "all sequential histories. Tie: conflict-biased seeded histories with autocommit probes after every Commit/Rollback; and below the "
             "in-memory lists: the persistent mutation events of Commit are observed on the real code (a successful commit of 2-5 keys is ONE "
             "key-value transaction followed by cleaning triples, a failed one writes no version record - the atomic commit step Durable.v "
             "models); when they differ the crash points between the separate writes are searched for a partial commit after reopening.",
        design="7/C03", technique="Coq proof on the abstract machine + refinement transfer + differential correspondence run",
        note="Sequential commits only (concurrent commits are C07). " + NOTE_COMMON),
    "C04": dict(
        text="Theorems (Coq): from every state reachable by any history (invariants Sound preserved by every operation), a process "
             "death between two operations recovers (Load in a fresh process) to a state related to the abstract machine's Reopen "
             "of the acknowledged prefix: acknowledged writes/commits in effect, nothing uncommitted visible "
             "(C04_crash_between_operations); a death INSIDE an operation - content written but no version record yet, any subset "
             "of the cleaner's/collector's physical deletions done, Commit's single Badger transaction applied or not - recovers to "
             "the prefix or to the prefix plus the whole operation (C04_inflight_atomic), and only autocommit writes and Commits "
             "can become visible (C04_uncommitted_invisible); recovery is idempotent also when it is itself interrupted; every "
             "listed key is readable. Tie: every persistent mutation of seeded workloads is a crash point: the workload is re-run "
             "in a child process that dies right before it, a fresh process observes (twice, and after a further death inside "
             "recovery); the mutation event sequence of each operation is compared with the micro-step table. "
             "Also multi-generation runs: an earlier process writes and exits, a FRESH process opens the directory (its counters come from Load), goes on writing and dies at a chosen mutation, a third process observes.",
        design="7/C04", technique="Coq invariant proof over persisted records + crash-point enumeration on the real code",
        note="Process death, not power loss (Badger SyncWrites=false; assumption on Badger/file-system atomicity per call, DESIGN "
             "section 3). " + NOTE_COMMON),
    "C05": dict(
        text="Theorems (Coq): for every sequential history with Close/Open at any positions the faithful model equals the abstract "
             "machine, whose Reopen keeps every committed value and forgets open transactions (C05_histories_with_reopen, "
             "via a characterisation of Load: the winner of each key is its newest committed version, proved from an invariant "
             "on the persisted version records); Load re-establishes all invariants whatever value the process-global counter "
             "has at Open and the counter may be raised at any time by other instances (C05_open_with_any_counter, "
             "C05_counter_raised_by_others), so every later write keeps winning. The pinned tree violated this (defect D1, "
             "machine-checked witness C05_later_writes_win_refuted_orig); repaired by a fix: commit in /repo. Tie: histories with "
             "reopen, 2-3 instances interleaved in one process, and a cross-process scenario (the D1 witness) on the real client. "
             "Also: the lock skeleton (C08_needs_held for Store/UpdateTx: memory order = persisted order) and concurrent writers of one key followed by Close/Open (what was read before Close is read after Open).",
        design="7/C05", technique="Coq proof (Load invariant, refinement incl. Reopen) + multi-instance / cross-process correspondence run",
        note="Other instances are modelled by their only influence, the sequence counter. Clean Close (pool drained). " + NOTE_COMMON),
    "C14": dict(
        text="Theorems (Coq): every content always belongs to a listed version or a queued cleaner job (C14_no_leak, invariant "
             "preserved by every operation); once all transactions ended, after drain + one collection pass + drain, every key "
             "holds exactly its newest committed version, every remaining content belongs to such a version, and those contents "
             "are intact (C14_quiescent_disk_exact); the same after a clean reopen. Tie: fault-free histories driven to exact "
             "quiescence (pool counters), then a walk of the storage roots (length+SHA-256 of every file) compared with the "
             "model, the abstract machine, and directly with what GetKeys/Get return.",
        design="7/C14", technique="Coq invariant proof (content liveness) + disk-walk correspondence run",
        note="Fault-free histories (a write through an ended handle is refused by the handle since the repair of D7). " + NOTE_COMMON),
    "C15": dict(
        text="PARTIAL. Theorems (Coq): under readers-writer lock semantics no writer ever shares a lock with another thread in any "
             "reachable state (C15_mutual_exclusion, induction over acquire/release traces of any length, any number of threads and "
             "locks); for every assignment of locks to locations, two accesses made under the discipline (the thread holds the "
             "location's lock, in write mode for a write) never conflict (C15_lockset_sound); fs_db's access table names a protection "
             "for every shared location class (C15_table_complete). That the compiled code FOLLOWS the table is not a fact about any "
             "executable model: it is decided by running programs of concurrent groups (every client operation, Begin at all levels, "
             "Commit/Rollback, collection passes, first use concurrent, 1-3 roots, inline and gRPC) on the harness built with the Go "
             "race detector; any report with an fs_db frame in an access stack is a violation. Four unprotected location classes were "
             "found this way on the pinned tree (defects D12 and D13a-c) and repaired by fix: commits. "
             "Tie of the step granularity to the source: the lock/effect skeleton of internal/usecase/core and of the monitor types is REGENERATED from the Go source on every run (fsdbh gen-lockskel) and LockSkelCheck.fsdb_skeleton_ok is re-checked on it; C15_core_accesses_protected (every mutation under the write lock, every read under the lock) and C15_no_conflicting_accesses (any number of threads, each running events accepted by the discipline, interleaved in any way the lock semantics allows: two threads never have conflicting accesses to one store enabled together) connect the skeleton to C15_lockset_sound. Transaction-heavy race programs added.",
        design="7/C15", technique="Coq proof (lockset discipline implies race freedom) + Go race detector on generated concurrent programs + translator-regenerated lock skeleton (usecase/core and monitor types)",
        note="PARTIAL by nature: a data race is a property of memory accesses of the compiled program on a schedule. The theorem "
             "covers the discipline; the detector covers only schedules that occur in the run (a race on an unobserved schedule is "
             "missed), and the access table is read from the source. " + NOTE_COMMON),
    "C06": dict(
        text="Theorems (Coq): sequences of fs_db's critical sections (write, repaired commit, rollback, collection, version look-up) "
             "refine the abstract machine, so each takes effect atomically at its step (C06_atomic_steps_linearize); no deadlock: "
             "for any number of threads, if every thread asks only for locks ranked above those it holds, some lock holder is "
             "never blocked (C06_no_deadlock), and fs_db's acquisition sequences are strictly increasing (C06_fsdb_lock_order). "
             "The read path WAS not atomic (C06_read_atomic_refuted_orig: look-up, then overwrite + collection, then fetch gave "
             "NotFound for a key that always had a value) - defect D11, repaired for Get/GetReader by a fix: commit (the version is resolved again: C06_read_retry_witness, C06_read_retry_linearizable); GetKeys is built the same way and is NOT repaired (C06_keys_atomic_refuted, known finding D11b, reproduced on every run through a pause "
             "point; proved instead: the two-step read equals the atomic read when no physical deletion touches the resolved "
             "version in between. Tie: groups of 2-4 concurrent operations under the real scheduler must be linearizable against "
             "the model (all permutations), no panic, no operation that does not return. "
             "Tie of the step granularity to the source: the lock/effect skeleton of internal/usecase/core and of the monitor types is REGENERATED from the Go source on every run (fsdbh gen-lockskel) and LockSkelCheck.fsdb_skeleton_ok is re-checked on it; C06_acquisitions_ordered (every acquisition asks for a store ranked above all held: the hypothesis of C06_no_deadlock) and C06_one_critical_section (an operation's events that need a store it enters once are in ONE critical section) are proved for arbitrary paths. A panic or a hang of the implementation inside the harness is reported as a violation with the input isolated.",
        design="7/C06", technique="Coq proof (refinement for atomic steps, lock-order theorem, refutation witness) + linearizability check against the model + translator-regenerated lock skeleton",
        note="PARTIAL: a critical section under a Go mutex is taken as one atomic step (the lock structure itself is checked on the regenerated skeleton); interleavings "
             "inside a step, RWMutex starvation order and torn reads (C15) are not modelled; un-paused schedules are whatever the Go "
             "scheduler produces. Known finding D11b (GetKeys). " + NOTE_COMMON),
    "C07": dict(
        text="Theorem (Coq, on the abstract machine, any number of other transactions and writers in between): if two transactions "
             "open at the same time wrote a common key and one commits, the other - if RR/SER - fails with ErrTxSerialization "
             "whenever it commits (C07_first_committer_wins, via monotone dirty sets), and the loser leaves nothing behind; the "
             "model's commit is the abstract commit (simulation). The pinned tree's two-phase commit violated this "
             "(C07_first_committer_wins_refuted_orig; defect D8 reproduced on the real code with a pause point after the conflict "
             "test: both commits returned nil) and was repaired by a fix: commit making test+publication one critical section. "
             "Tie: 2-3 concurrent committers (+ autocommit writer) with intersecting write sets, all paused after their conflict "
             "test until all have arrived; the outcome must have at most one winner and equal one sequential order of the model. "
             "Tie of the step granularity to the source: the lock/effect skeleton of internal/usecase/core and of the monitor types is REGENERATED from the Go source on every run (fsdbh gen-lockskel) and LockSkelCheck.fsdb_skeleton_ok is re-checked on it; C07_one_critical_section: conflict test, commit numbers, records and publication of UpdateTx lie in ONE critical section of the committed store (what the atomic commit of the theorem assumes). Staggered programs (a commit in the middle, conflicting writes after it) added.",
        design="7/C07", technique="Coq proof (spec-level invariant + simulation) + adversarial schedule replay through a pause point + translator-regenerated lock skeleton",
        note="Atomicity of a critical section under the write lock is assumed (Go runtime). On the real code only the adversarial "
             "schedule per case is explored; the theorem covers all orders. " + NOTE_COMMON),
    "C08": dict(
        text="Theorems (Coq, atomic Begin/Commit/collection): a snapshot is the committed view of ONE state, and re-reading a key the "
             "transaction has not written returns the same result for as long as it is open, whatever commits, writes, Begins and "
             "collections happen in between (C08_repeatable, by induction over arbitrary operation sequences); the model keeps the "
             "snapshot's version and content through every step. The full statement is REFUTED for the faithful model because Begin "
             "is not atomic w.r.t. a multi-key publication (C08_fractured_refuted, D9) and w.r.t. the collector "
             "(C08_gc_horizon_refuted, D10) - known findings, both reproduced deterministically on the real code on every run "
             "with pause points. Tie: scripted schedules + sequential histories with 2-6 committed versions of a key around two snapshot Begins and "
             "collection passes (every handle's answers must never change) + concurrent groups (Begin/Commit/GC/Set) under the real scheduler whose "
             "outcome, including repeated snapshot reads, must equal one sequential order of the model. "
             "Tie of the step granularity to the source: the lock/effect skeleton of internal/usecase/core and of the monitor types is REGENERATED from the Go source on every run (fsdbh gen-lockskel) and LockSkelCheck.fsdb_skeleton_ok is re-checked on it; C08_needs_held: sequence numbers are drawn inside the critical section that publishes the version (Store: both write locks; UpdateTx: the committed store's). Probes include GetKeys, a key created and a key deleted after the snapshots; the signatures of D9/D10 for un-paused races are narrow (only the reads of the snapshot begun inside the group may deviate, each to a value some sequential order gives).",
        design="7/C08", technique="Coq proof (stability under all operation sequences) with machine-checked refutation witnesses + scripted schedule replay + translator-regenerated lock skeleton",
        note="Claimed with known findings D9 and D10 (not repaired: they need a change of the sequencing/locking protocol). " + NOTE_COMMON),
    "C09": dict(
        text="Theorems (Coq): for every sequential history the outputs of all non-collector operations equal those of the history "
             "with every collection/drain removed (C09_gc_transparent); a collection pass and a drain keep the model related to "
             "the same abstract state, so every later read of every reader is unchanged and every version a read may return "
             "still has its content. Tie: base histories with the collector inserted at every position in turn, after every "
             "step, and not at all; plus boundary corpus (a committed write drawing the number right after a Begin).",
        design="7/C09", technique="Coq refinement proof (collector = identity of the abstract machine) + position-exhaustive correspondence run",
        note="Collector invoked between operations (concurrent collection: C06/C08). " + NOTE_COMMON),
    "C12": dict(
        text="Theorems (Coq, for ALL write lists incl. empty writes, all read-buffer sizes B >= 1, all failure points of the storing "
             "side and ALL schedules of the two threads, over a transition system of internal/utils/async/read_writer.go with one "
             "step per stretch of code between two pause points): no reachable state is stuck, every schedule is finite (explicit "
             "bound) and can be completed, and Close has returned in the final state; whenever Close returned nil every Write "
             "returned nil and the published content is exactly the concatenation of the writes; the error flag is set exactly "
             "when the storing side failed, then Close returns the error and nothing is published; the invariant (reader about to "
             "wait or parked => pipe open and buffer empty, or a Signal/Broadcast is pending); the gRPC stream writer sends chunks "
             "of length 1..chunkSize whose concatenation is the concatenation of the writes, and composed with the server's upload reader "
             "(Stream.v) and the store's write path (Faults.v): a completed external Create stores exactly the concatenation of its Writes for "
             "every chunk size, server buffer length, fault plan and root order (C12_grpc_create_stores_concat), the server's read loop ends "
             "(C12_grpc_create_reader_terminates), a stream cut after any number of chunks is not stored (C12_grpc_create_abort_not_stored). "
             "Refuted for the code before the "
             "fix: commit and stated as such with vm_compute witnesses (content truncated after an empty Write; Close never returns "
             "when it broadcasts before the reader parks; each half of the repair alone is insufficient). Tie: schedule replay "
             "through verifhook pause points: the extracted model enumerates every replayable (eager-normal) complete schedule for "
             "all write lists of <= 3 writes with sizes {0,1,2} and B in {1,2}, plus probes (a thread the model says is blocked is "
             "released and must block) and failure runs; each is replayed on the real readWriter and the pause-point trace, "
             "Write/Close results and stored bytes must equal the model's; the two recorded witness schedules run first; "
             "sequential Create/Write*/Close/Get through the inline and gRPC clients with sizes around the 32 KiB copy buffer; "
             "streamwriter chunking against the model; a sample is re-evaluated by vm_compute. "
             "Also scripted: with the inline Create's storing goroutine parked right after its store failed (pause point inline.create.setFailed), Close must still be waiting and must report the error class afterwards; failing stores (empty key) in the end-to-end cases.",
        design="7/C12", technique="Coq proof (invariant over all interleavings + termination measure) + schedule replay of the "
                                  "extracted model's schedules on the real code + end-to-end runs",
        note="Step granularity = pause points (DESIGN appendix A): interleavings inside a step and the runtime's Mutex/Cond/WaitGroup "
             "are assumed, not verified. One writer and one storing goroutine per file. Replay cannot delay a goroutine that is "
             "blocked inside cv.Wait/Lock, so schedules in which such a thread lingers are covered by the theorems only. Over gRPC "
             "only successful contents are compared (unmapped stream errors are D6, under C11). " + NOTE_COMMON),
    "C13": dict(
        text="Theorems (Coq): the abstract machine rejects every operation through a non-open handle with ErrTxNotFound "
             "(Rollback: no-op) and changes nothing, whatever the key (C13_late_ops_fail_and_change_nothing); ended handles are "
             "not open (C13_ended_is_not_open); each Begin is fresh. With the client layer (Client.v: the handle returned by "
             "Begin remembers that it ended and refuses writes itself; reads and Commit are refused by the registry) EVERY "
             "sequential history whatsoever - operations through open, ended or never issued handles at all four levels, "
             "collections, drains, Close/Open anywhere - behaves as the abstract machine: C13_every_history_refines, no "
             "hypothesis. The full statement was false of the code before its repair (C13_late_write_refuted_orig: at the "
             "use-case layer a Set through a committed transaction succeeds and a ReadUncommitted reader sees it) - genuine "
             "defect D7, repaired by a fix: commit in the root package's transaction handle. Tie: histories with operations "
             "through ended handles at all levels with observers, through both clients, compared with the extracted "
             "client-layer model and the abstract machine; a sample re-evaluated by vm_compute.",
        design="7/C13", technique="Coq proof (refinement for every history, refutation witness for the original code) + differential correspondence run",
        note="The server's use cases still accept a write that names an unknown transaction id (only reachable with a hand-made "
             "gRPC request, not through either client): outside what the clients can express, stated in DESIGN 0.6. " + NOTE_COMMON),
    "C16": dict(
        text="Theorems (Coq, for ALL numbers of workers, ALL sender programs of ANY number of sender threads and ALL schedules, over a "
             "transition system of internal/utils/wpool with one step per stretch of code between two pause points: senders, "
             "lifecycle threads calling Stop/Run, the deferred-send flusher goroutines and the workers): no job is ever executed "
             "twice (C16_exactly_once: any number of Stop/Run threads, both code variants); a sender always has an enabled step, or "
             "gets one after one step of another sender holding the list lock - never a worker's step (C16_send_never_blocks_on_"
             "workers, C16_list_lock_invariant); with at most one thread calling Stop/Run: the lifecycle phase invariant, while the "
             "pool is stopped and when Stop is about to return no worker/sender/flusher is alive and executions are only logged "
             "by live workers (C16_stop_clean, C16_phase_invariant); on the repaired code with the first Run returned: no panic and "
             "no stuck state (C16_no_panic_no_deadlock_partial), 'deferred list non-empty => a flusher that has not yet seen nil "
             "holds the flusher lock' (C16_flusher_invariant) and in every quiet live state the channel and the deferred list are "
             "empty and every accepted job was executed exactly once (C16_eventually_run). REFUTED for the code before the two "
             "fix: commits with vm_compute witnesses that are replayed on the real code: a deferred job stranded in a running idle "
             "pool (D14, C16_eventually_run_refuted_orig) and send on the closed channel of the previous run when a Send races "
             "with a restart (D18, C16_no_panic_refuted_restart_orig; found by the randomized run). REFUTED and left open as "
             "known finding D15: two concurrent Stops, Send before the first Run, Stop inside Run (C16_no_panic_refuted_*), each "
             "reproduced on the real code on every run; D19 (WaitGroup misuse panic when Send races with Stop, inside "
             "sync.WaitGroup, seen about once per 10^4 random programs) is an open known finding below the model's granularity. "
             "Tie: schedule replay through verifhook pause points (goroutines spawned by the pool are adopted by the controller): "
             "the recorded witnesses first; every replayable complete schedule the extracted model enumerates for up to 3 Sends x "
             "1 worker x capacity 2 with probes (exhaustive for one or two sender threads of <= 2 Sends in quick, seeded sample "
             "of the 3-thread ones; all in thorough) plus Stop/Run scenarios - pause-point trace, execution order, accepted jobs, "
             "queues and flusher lock compared with the model, property oracle on every run; 2000 (thorough 30000) randomized "
             "Send/Stop/Run programs under the real scheduler with gated jobs; a sample re-evaluated by vm_compute. "
             "A third of the jobs of the randomized programs are sent with a request-scoped context that is cancelled as soon as Send has returned: an accepted job is executed all the same.",
        design="7/C16", technique="Coq proof (invariants over all interleavings, conserved occurrence count per job) + schedule replay of the "
                                  "extracted model's schedules on the real pool + randomized concurrent programs",
        note="Step granularity = pause points (DESIGN appendix A): interleavings inside a step and the runtime's Mutex/WaitGroup/"
             "channel/select/timer are assumed (D19 lives there). The theorems that hold assume one thread issuing Stop/Run and no "
             "Send before the first Run returned (otherwise: D15). Jobs accepted but not started when Stop is called are dropped "
             "(read as allowed: exactly-once is promised while the pool keeps running). Send's time-out is modelled as enabled "
             "only when the channel is full. 'Send returns promptly' is measured (support), not proved beyond 'never needs a "
             "worker step'. " + NOTE_COMMON),
    "C17": dict(
        text="Theorems (Coq, every history of any length over Set (with any choice among the candidates and any ENOSPC "
             "spill), orphaned files, cleaner removals and reopen; any number of roots; any limit >= 1, hence the clamped "
             "limit >= 100): after the Get phase that every Set starts with, every root has an active directory with room; "
             "no directory ever holds more than the limit (an entry only goes into a candidate that had room, one per "
             "directory per call); after the cleaner removed a content of d, d is active, has room, is a candidate of the "
             "next Set and takes the entry when chosen, and stays a candidate while it has room; every directory and every "
             "active directory lies under a configured root, and ParseDir(Join(root, name)) = (root, name); repository "
             "invariants (no duplicates, active directories exist on disk, per-root counter = number of active directories, "
             "no counter underflow). Tie: seeded histories run against the real inline client (limit 100, configured values "
             "below 100 included) and the real server application (limit 1-5) on a real file system; after every step at "
             "pool quiescence the roots are walked and the repository's active set and counters are read through a "
             "verif-tagged accessor; the extracted model replays the history with the observed choices and must print the "
             "same per-directory counts, active sets and counters and must allow every observed choice; the property oracle "
             "(count <= limit, every root offered room when a write was placed, freed directories are active again and get "
             "written again, placement shape, counter = number of active directories) is evaluated on the observations. "
             "Also: root paths spelled with a trailing slash or a ./ component, and a configuration change between two openings (written with n roots, reopened with the first k, deletions and a collection, then new writes: every new content lies in <configured root>/<uuid>/<uuid>).",
        design="7/C17", technique="Coq proof (invariant by induction over operation histories, loop invariants for the two "
                                  "loops of dir.Get) + full-stack correspondence run on a real file system",
        note="Sequential histories only. The directory choice (shuffle, free-space filter) is an input of the model, so the "
             "ENOSPC continuation is covered by the theorems but not exercised by the tie; Go map iteration order is not "
             "modelled (observations are order-free); roots are assumed distinct after cleaning. The model reproduces that "
             "reopen re-activates full directories and the next write replaces each by a new empty directory. " + NOTE_COMMON),
    "C18": dict(
        text="Theorems (Coq, unbounded): the binary search over the array mirror equals the linear-scan "
             "specification on every strictly increasing list; the collector loop removes exactly the versions with a "
             "successor <= horizon; lookups after the horizon (and at it when it is not a version number) and the latest "
             "version are unchanged; mirror = list and sortedness under every interleaving of push/pop/collect. "
             "Tie: the real usecase/core + model/core code is run on all 4096 subsets of a 12-element domain x all "
             "horizons x all probes, plus random long interleavings, against the extracted model and spec.",
        design="7/C18", technique="Coq proof (induction on fuel/list) + exhaustive and random correspondence run",
        note="Sequence numbers >= 1 and < 2^64; pushes increasing. " + NOTE_COMMON),
    "C19": dict(
        text="Theorems (Coq, all records / all byte strings): unmarshal(marshal r) = r for every well-formed record; the "
             "byte layout (le64 sequence with the i-th byte = (n/256^i) mod 256, then tx id, content id, raw key; length 40+|key|); "
             "decode is total, rejects exactly strings shorter than 40 bytes, and marshal(unmarshal bs) = bs; canonical textual "
             "ids round-trip. Tie: real marshalFile/unmarshalFile and the repository's Set/GetAll over a recording provider are "
             "compared byte-for-byte with the extracted model on boundary + random records, arbitrary byte strings, golden vectors. "
             "Also the glue around the codec: C19_set_getall_roundtrip / C19_getall_decodes_each (CodecRepo.v: records with different content ids stored through Set, in one key-value transaction or one by one, are exactly what GetAll returns, for any number of records and any keys) and batches of 0-8 records through the real file repository over a real Badger database. "
             "Keys of 65000..100000 bytes are among the encode / round-trip / batch cases.",
        design="7/C19", technique="Coq proof (algebraic round-trip, layout lemma) + byte-level correspondence run",
        note="Bytes modelled as N < 256; only the canonical 36-character UUID text form is modelled. " + NOTE_COMMON),
    "C10": dict(
        text="Covers the inline client (Set, SetReader, Create+Write*+Close reaching usecase/store.Set) and the receiving end of a gRPC "
             "upload (Stream.v: streamreader.Read, the reader the server hands to store.Set; composed with the write path: "
             "C10_grpc_abort_never_stored - a stream aborted after any chunks, read with any buffer length, is never stored for any fault plan "
             "and candidate order; C10_grpc_upload_exact - a stored upload holds exactly the chunks in order; C10_grpc_reader_terminates; "
             "C10_grpc_reads_prefix; C10_grpc_abort_refuted_orig = finding D4, C10_grpc_upload_exact_partial_orig = the original reader is the same function on every clean stream; tie: 400/6000 scripted streams x Read-length sequences through the "
             "real streamreader vs the extracted model, property oracle on the answers, 40 re-evaluated by vm_compute). Theorems "
             "(Coq, for every source, every split of it into Read results, every per-root fault plan - ENOSPC at any offset, "
             "all-or-nothing or after a partial write of any length - every reported free space and every candidate order of the "
             "shuffle, every io.Copy buffer size) about an executable model of the retry loop of store.Set and of content.Store "
             "(bufWriter, NotEnoughSpaceError{Start,Middle,End}, MultiReader re-reading, minSize, closing of partial files): for the "
             "repaired write path a write that returns nil stored exactly the source bytes and the source did not fail "
             "(C10_success_is_exact); a failing source makes Set fail; a failed Set writes neither content record nor version "
             "record - the Core machine's state is unchanged, so every later operation answers as before - leaves only files no "
             "record points to (each a prefix of the source) and no open handle (C10_failure_no_trace); a fault-free candidate "
             "that reports more free space than every candidate before it makes the write succeed with exactly the source bytes "
             "(C10_continues_on_other_root, C10_continues_two_roots); when no root has room the result is ErrNoFreeSpace "
             "(C10_no_room_anywhere). For the pinned tree the statements are REFUTED with vm_compute witnesses "
             "(C10_success_is_exact_refuted_orig = finding D16, duplicated bytes after a partial write; "
             "C10_continues_on_other_root_refuted_orig = finding D17, read from an already closed partial file when two roots run "
             "out) and proved under the hypothesis that names the trigger (_partial_orig: all-or-nothing ENOSPC). Both defects were "
             "reproduced on the real code by this check and repaired (fix: commits); the corpus witnesses run first on every run. "
             "Tie: seeded fault scripts over 1-3 roots through the real inline database with a verif-tagged File.Write fault plan "
             "and reported-free-space override; the harness observes the roots actually visited (the shuffle), the write sizes, the "
             "error class, Get afterwards, every file below the roots (length+MD5) and created/closed handles, and every line is "
             "compared with the extracted model run on the observed candidate order; the property is also evaluated directly on "
             "the implementation's observations; 60 small cases are re-evaluated with vm_compute against the extracted code. "
             "Also: aborted uploads (a source reader that fails or a caller that cancels after 0..len-1 bytes, old value or fresh key, inside or "
             "outside a transaction) through the inline AND the gRPC client: the call fails, the key keeps what it had, nobody reads partial content.",
        design="7/C10", technique="Coq proof over an executable fault model (+ refutation witnesses for the unrepaired code) + "
                                  "fault-injection correspondence run",
        note="File system faults are injected (a faulted Write stores min(capacity-offset, keep) bytes and returns ENOSPC), not "
             "produced by a full disk; Badger record writes are assumed to succeed; Create with several Writes is only run "
             "without write faults (timing-dependent split; the theorems hold for every split). gRPC's Recv is assumed to keep "
             "answering its ending (io.EOF or the abort error) once it has reported it; the client's sending side is covered by C12 (stream writer) and C11. Orphan partial files left in "
             "roots that ran out are never removed by fs_db (recorded observation, invisible to readers). " + NOTE_COMMON),
    "C11": dict(
        text="Covers the error-class / isolation-level mapping (theorems) and whole client histories through both clients "
             "(differential run incl. aborted uploads; defects D4, D5, D6 found this way and repaired by fix: commits). Theorems (Coq, every error tree: any depth of fmt.Errorf %w wrapping and errors.Join "
             "over the ten sentinels and foreign errors), stated over switch tables regenerated from the Go AST on every run: "
             "ClientError(Error(e)) matches exactly one sentinel, the class announced by the server; that class is a specific "
             "exported class of e whenever e has one and ErrUnknown otherwise (foreign and config errors become ErrUnknown); the "
             "status code alone leads to the same class except for ErrHeaderNotFound (named exception: no status-code case, "
             "travels as Internal, recognised by the detail only); unused status codes read as ErrUnknown; the four isolation "
             "levels round-trip in both directions, out-of-range numbers become ReadCommitted. Streaming: C11_same_content_both_clients - an inline "
             "SetReader yielding the pieces ws and an external Create/SetReader writing the same pieces (any chunk size, any server buffer "
             "length, any fault plans) store the same bytes whenever both are stored (models Stream.v, RW.v, Faults.v, tied by C10/C12's runs). "
             "Refuted and stated as such: the "
             "full errors.Is set is not preserved (a join of two classes keeps the first; a foreign error gains ErrUnknown). "
             "Tie: every case is pushed through the real adapter/errors.Error -> marshalled status -> ClientError and "
             "adapter/iso_level via a verif-tagged accessor and compared line by line with the extracted model (exhaustive: "
             "sentinels x 7 wrappings, all ordered pairs, all ordered triples of exported classes, 18 status codes x 11 details, "
             "all 256 level numbers; plus seeded random trees of depth <= 6); the property oracle is evaluated on the "
             "implementation's own answers.",
        design="7/C11", technique="Coq proof (reduction of all error trees to 1024 match sets decided by vm_compute over generated "
                                  "tables) + Go-AST translator + exhaustive and random correspondence run",
        note="Part (a) of C11 only. The translator harness/gen_errmap.go is trusted to list switch cases in source order and "
             "refuses unknown shapes; custom error types with their own Is/Unwrap are outside the model. " + NOTE_COMMON),
    "C20": dict(
        text="Theorems (Coq, all inputs): for each of the seven settings the value returned by ParseConfig is the environment "
             "value if set, non-empty and well-formed, else the file value if present, else the documented default "
             "(8888, test_db, 1000000, [./testStorage], 1m, GOMAXPROCS, 1ms); ParseConfig fails iff the named file cannot be "
             "opened, a present file value is malformed, or a non-empty environment value is malformed, and which error wins "
             "(file first, then the first malformed variable in os.LookupEnv order); Storage.Valid returns ErrEmptyDbPath first, "
             "then ErrEmptyRootDirs, otherwise only raises maxDirCount to max 100; ROOT_DIRS splitting on ';' is inverse to "
             "joining. Constants, environment names, LookupEnv order and the defaultConfig wiring are regenerated from "
             "config/config.go (go/ast translator) on every run and pinned to the documented values by theorems. "
             "Tie: real config.ParseConfig + Storage.Valid run in a child process per case (generated YAML file, exact "
             "environment) on all 7x12x3 per-setting combinations, every malformed-text variant, random full combinations and "
             "Valid grids, compared line by line with the extracted model; a sample is re-evaluated by vm_compute.",
        design="7/C20", technique="Coq proof (case analysis over a decision-list form of ParseEnv) + go/ast translator for "
                                  "constants + exhaustive/random child-process correspondence run",
        note="YAML decoding and strconv/time.ParseDuration are abstracted to 'value v | malformed' (what yaml.v2 coerces, e.g. "
             "`port: 1.5` -> 1, counts as a value); errors are compared as classes, so the first-malformed-wins order is tied to "
             "the source only through the translator. " + NOTE_COMMON),
}

NOT_YET = {}


def main():
    props = [json.loads(l) for l in open(os.path.join(ROOT, "properties.jsonl"))]
    checks, na = [], []
    for p in props:
        pid = p["id"]
        if pid in CHECKS:
            c = CHECKS[pid]
            checks.append(dict(
                property_id=pid,
                quick_cmd="./check %s --tier quick" % pid,
                thorough_cmd="./check %s --tier thorough" % pid,
                evidence_file="/verif/evidence/%s.json" % pid,
                replay_cmd_template="./check %s --replay {path}" % pid,
                engine="coq+correspondence",
                level_claimed=dict(category="proof", text=c["text"], design_ref=c["design"]),
                level_note=c["note"],
                technique=c["technique"]))
        else:
            na.append(dict(property_id=pid, reason=NOT_YET.get(
                pid, "check not built yet in this revision (planned, see DESIGN.md section 7); not claimed until its machinery runs")))
    m = dict(
        version=1,
        setup_cmd="./setup.sh",
        hooks=dict(guard="verif", enable="go build -tags verif (harness/ built against /repo working tree)",
                   baseline_off_cmd=BASELINE, add_only=True,
                   source_commits=[l.strip() for l in open(os.path.join(ROOT, "hook_commits.txt")) if l.strip()]),
        engines=[dict(name="coq+correspondence", path="/verif/check",
                      serves_properties=[c["property_id"] for c in checks],
                      kind_free_text="Coq 8.16.1 theorems over executable Gallina models (coq/), extracted to OCaml "
                                     "(ocaml/), compared with the real code through a Go harness (harness/) built with -tags verif")],
        checks=checks,
        not_applicable=na,
        notes="See DESIGN.md. known_findings.json lists recorded genuine defects; seeded/ holds confirmed property-breaking changes.")
    with open(os.path.join(ROOT, "MANIFEST.json"), "w") as f:
        json.dump(m, f, indent=1)


if __name__ == "__main__":
    main()
