#!/bin/bash
# usage: eval_many.sh tier seeded-dir...
export GOFLAGS=-mod=mod GOPROXY=off GOSUMDB=off GOTOOLCHAIN=local
tier=$1; shift
cd /verif
for s in "$@"; do
  python3 lib/seedtool.py eval $s --tier $tier > /tmp/eval.log 2>&1 || tail -3 /tmp/eval.log
  python3 - "$s" "$tier" <<'PY'
import json,sys
e=json.load(open(sys.argv[1]+'/eval.json'))
for c,r in e[sys.argv[2]].items(): print(sys.argv[1], c, 'CAUGHT' if r['caught'] else 'MISSED rc=%s'%r['rc'], r['seconds'], (r['what'] or r['lines'])[:1])
PY
done
