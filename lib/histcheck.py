"""Shared machinery for the history-based properties (C01, C02, C03, C09, C13, C14, C11 histories)."""
import concurrent.futures as cf
import json
import os
import shutil
import tempfile

from lib import common as C
from lib import histgen as G


def run_sharded(binary, cmd, cases, extra=(), shards=None, timeout=None):
    """run case texts through `binary cmd <file> extra...` in parallel shards; returns per-case output lists"""
    # an implementation that stops answering is a finding, not a reason to wait: quick runs finish in seconds
    timeout = timeout or (300 if os.environ.get("VERIF_TIER_EFFECTIVE", "quick") == "quick" else 1800)
    shards = shards or min(C.NCPU, max(1, len(cases) // 4))
    chunks = [cases[i::shards] for i in range(shards)]

    def one(chunk):
        if not chunk:
            return []
        lines = "\n".join(chunk).split("\n")
        out = C.run_lines(binary, cmd, lines, timeout=timeout, extra_args=list(extra))
        res = G.split_outputs(out)
        if len(res) != len(chunk):
            raise C.CheckBroken("%s %s: %d outputs for %d cases" % (os.path.basename(binary), cmd, len(res), len(chunk)))
        return res
    with cf.ThreadPoolExecutor(max_workers=shards) as ex:
        parts = list(ex.map(one, chunks))
    res = [None] * len(cases)
    for s, part in enumerate(parts):
        for j, o in enumerate(part):
            res[s + j * shards] = o
    return res


def run_model(cmd, cases):
    lines = "\n".join(cases).split("\n")
    out = G.split_outputs(C.run_lines(C.DRIVER, cmd, lines, timeout=900))
    if len(out) != len(cases):
        raise C.CheckBroken("driver %s: %d outputs for %d cases" % (cmd, len(out), len(cases)))
    return out


def run_flags(cases):
    lines = "\n".join(cases).split("\n")
    out = C.run_lines(C.DRIVER, "hist-h", lines, timeout=900)
    flags = []
    for l in out:
        flags.append(("H=true" in l, "auto=true" in l))
    if len(flags) != len(cases):
        raise C.CheckBroken("driver hist-h: %d outputs for %d cases" % (len(flags), len(cases)))
    return flags


def op_lines(case):
    ls = case.split("\n")
    return ls[:2], ls[2:-1], ls[-1:]


def first_diff(a, b):
    for i in range(max(len(a), len(b))):
        if i >= len(a) or i >= len(b) or a[i] != b[i]:
            return i
    return None


def is_late_write_divergence(case, impl, spec, i):
    """finding D7's signature: the first divergence from the spec is a Set/Delete that the spec rejects with
    ErrTxNotFound and the implementation accepts"""
    ops = [l for l in case.split("\n") if not l.startswith("keytab")]
    if i is None or i >= len(ops):
        return False
    t = ops[i].split()
    return t and t[0] in ("set", "del") and impl[i] == "ok" and spec[i] == "err TxNotFound"


def canon(case, out):
    return G.canon_model_output(case, out)


def shrink_case(case, pred):
    """ddmin over the operation lines of a case while pred(case_text) holds"""
    head, ops, tail = op_lines(case)

    def f(sub):
        return pred("\n".join(head + sub + tail))
    small = C.ddmin(ops, f)
    return "\n".join(head + small + tail)


def reopen_free(case):
    return not any(l.startswith("reopen") for l in case.split("\n"))


class HistResult:
    pass


def check_histories(rep, fsdbh, cases, mode="inline", known_d7=False, oracle="spec", max_report=3,
                    correspondence="fsdbh hist (real client) vs coq/Client.v (cstep over Core.mstep) vs coq/Spec.v (astep)"):
    """three-way comparison; returns statistics. oracle: 'spec' (abstract machine) or 'kv' (key-value map)"""
    impl = run_sharded(fsdbh, "hist", cases, extra=[mode])
    model = [canon(c, o) for c, o in zip(cases, run_model("hist", cases))]
    spec = [canon(c, o) for c, o in zip(cases, run_model("hist-spec" if oracle == "spec" else "hist-kv", cases))]
    flags = run_flags(cases)
    st = HistResult()
    st.n = len(cases)
    st.ops = sum(len(c.split("\n")) - 3 for c in cases)
    st.impl_model_mismatch = 0
    st.h_cases = sum(1 for f in flags if f[0])
    st.d7_seen = 0
    st.tcb = 0
    st.reads = 0
    st.impl = impl
    reported = 0
    for k, c in enumerate(cases):
        H, auto = flags[k]
        # with the client layer (Client.v: a handle that ended refuses writes itself) the refinement theorem
        # client_refines_spec has NO hypothesis: the abstract machine is the oracle for every history
        usable = True if oracle == "spec" else auto
        # the refinement theorem at run time (extracted model vs extracted spec under H; the key-value
        # machine does not model Reopen's key reordering, so kv cases with reopen are skipped here)
        if usable and (oracle == "spec" or reopen_free(c)) and model[k] != spec[k]:
            st.tcb += 1
            raise C.CheckBroken("extracted model and extracted spec disagree under the theorem's hypotheses "
                                "(contradicts model_refines_spec; TCB alarm) on case:\n" + c[:1500])
        st.reads += sum(1 for l in impl[k] if l.startswith("val ") or l.startswith("err NotFound") or l.startswith("keys"))
        if impl[k] != model[k]:
            st.impl_model_mismatch += 1
            if reported < max_report:
                reported += 1
                investigate(rep, fsdbh, c, mode, oracle, known_d7, correspondence, observed=impl[k])
            continue
        # impl == model here; property oracle on the implementation's own output
        if usable:
            if impl[k] != spec[k] and reported < max_report:      # only possible with reopen in the case
                reported += 1
                i = first_diff(impl[k], spec[k])
                rep.violation(dict(kind="oracle", what="implementation differs from the abstract machine",
                                   case=c, step=i, impl=impl[k], spec=spec[k], mode=mode))
        else:
            i = first_diff(impl[k], spec[k])
            if i is not None:
                if known_d7 and is_late_write_divergence(c, impl[k], spec[k], i):
                    st.d7_seen += 1
                elif reported < max_report:
                    reported += 1
                    rep.violation(dict(kind="oracle", what="operation through a non-open handle behaves differently from "
                                       "both the property and the recorded finding", case=c, step=i,
                                       impl=impl[k], spec=spec[k], mode=mode))
    return st


def investigate(rep, fsdbh, case, mode, oracle, known_d7, correspondence, observed=None):
    """impl != model on this case: shrink, then look for a concrete failing input with the spec oracle.  The implementation
    may be nondeterministic (Go map iteration order decides which key a loop visits last): a candidate counts as failing
    if one of three runs fails, and when the shrunk case does not fail again the ORIGINAL history with the outputs that were
    observed is the replay (a concrete failing history, reproduced with some probability)."""
    def run3(c):
        i = run_sharded(fsdbh, "hist", [c], extra=[mode], shards=1)[0]
        m = canon(c, run_model("hist", [c])[0])
        s = canon(c, run_model("hist-spec" if oracle == "spec" else "hist-kv", [c])[0])
        return i, m, s

    def mismatch(c):
        for _ in range(3):
            i, m, _ = run3(c)
            if any(l.startswith("BAD-") or l.startswith("NO-DB") for l in i):
                return False          # shrinking removed a Begin: not a valid case any more
            if i != m:
                return True
        return False
    try:
        small = shrink_case(case, mismatch)
    except C.CheckBroken:
        small = case
    flaky = None
    for attempt in range(6):
        i, m, s = run3(small)
        if i != m:
            break
    else:
        if observed is not None:
            # not reproduced: report the history as it was observed
            _, m, s = run3(case)
            small, i, flaky = case, observed, "the failure is nondeterministic: 6 re-runs of the shrunk history agreed with the model; " \
                                              "impl = the outputs observed in the original run"
    H, auto = run_flags([small])[0]
    payload = dict(kind="correspondence", correspondence=correspondence, case=small, impl=i, model=m, spec=s,
                   mode=mode, hypothesis_H=H, original_case=case if len(case) < 6000 else case[:6000] + "\n...")
    if flaky:
        payload["nondeterministic"] = flaky
    d = first_diff(i, s)
    usable = True if oracle == "spec" else auto
    if d is not None and (usable or not (known_d7 and is_late_write_divergence(small, i, s, d))):
        ops = [l for l in small.split("\n") if not l.startswith("keytab")]
        payload["failing_step"] = ops[d] if d < len(ops) else None
        payload["what"] = "implementation differs from the specification at this step (impl=%s, spec=%s)" % (
            i[d] if d < len(i) else None, s[d] if d < len(s) else None)
        rep.violation(payload)
    elif d is not None:
        # diverges from the spec only through the recorded late-write finding, but ALSO from the model of that finding
        dm = first_diff(i, m)
        ops = [l for l in small.split("\n") if not l.startswith("keytab")]
        payload["failing_step"] = ops[dm] if dm is not None and dm < len(ops) else None
        payload["what"] = ("after a late write (finding D7) the implementation behaves differently from the recorded "
                           "behaviour of that finding: a different violation")
        rep.violation(payload)
    else:
        rep.violation(payload, no_input=True)


# ---------------------------------------------------------------------------
# in-Coq evaluation of a sample (vm_compute) against the extracted model's outputs

LEVELS = {"RU": "RU", "RC": "RC", "DEF": "RC", "RR": "RR", "SER": "SER"}


def coq_op(t):
    k = t[0]
    if k == "begin":
        return "OBegin %s" % LEVELS[t[1]]
    if k == "set":
        return "OSet %s %s %s" % (t[1], t[2], t[3])
    if k == "del":
        return "ODel %s %s" % (t[1], t[2])
    if k == "get":
        return "OGet %s %s" % (t[1], t[2])
    if k == "keys":
        return "OKeys %s" % t[1]
    if k == "commit":
        return "OCommit %s" % t[1]
    if k == "rollback":
        return "ORollback %s" % t[1]
    return {"gc": "OGC", "drain": "ODrain", "reopen": "OReopen"}.get(k)


def coq_out(l):
    t = l.split()
    if t[0] == "ok":
        return "OutUnit"
    if t[0] == "h":
        return "OutHandle %s" % t[1]
    if t[0] == "val":
        return "OutVal %s" % t[1]
    if t[0] == "keys":
        return "OutKeys [%s]" % "; ".join(t[1:])
    if t[0] == "err":
        return "OutErr E%s" % t[1]
    raise ValueError(l)


def vm_crosscheck(cases, raw_model_outs):
    """raw_model_outs: driver 'hist' outputs (value ids, not canonicalised)"""
    terms = []
    for c, o in zip(cases, raw_model_outs):
        ops, outs = [], []
        body = [l for l in c.split("\n")[2:-1]]
        res = o[1:-1]
        if any(l.split()[0] == "disk" for l in body):
            continue
        for l, r in zip(body, res):
            ops.append(coq_op(l.split()))
            outs.append(coq_out(r))
        terms.append("([%s], [%s])" % ("; ".join(ops), "; ".join(outs)))
    if not terms:
        return 0
    d = tempfile.mkdtemp(prefix="verif-histvm-")
    try:
        src = ("From Coq Require Import List NArith.\nFrom FsDb Require Import Core Spec Client.\nImport ListNotations.\nOpen Scope N_scope.\n"
               "Definition out_eqb (a b : out) : bool := match a, b with\n"
               " | OutUnit, OutUnit => true | OutHandle x, OutHandle y => N.eqb x y | OutVal x, OutVal y => N.eqb x y\n"
               " | OutKeys x, OutKeys y => if list_eq_dec N.eq_dec x y then true else false\n"
               " | OutErr ENotFound, OutErr ENotFound | OutErr EEmptyKey, OutErr EEmptyKey\n"
               " | OutErr ETxNotFound, OutErr ETxNotFound | OutErr ETxSerialization, OutErr ETxSerialization => true\n"
               " | _, _ => false end.\n"
               "Fixpoint outs_eqb (a b : list out) : bool := match a, b with [], [] => true | x :: a', y :: b' => andb (out_eqb x y) (outs_eqb a' b') | _, _ => false end.\n"
               "Fixpoint mism (i : nat) (cs : list (list op * list out)) : list nat := match cs with [] => []\n"
               " | (ops, ex) :: r => if outs_eqb (crun ops) ex then mism (S i) r else i :: mism (S i) r end.\n"
               "Definition cases : list (list op * list out) := [\n  %s\n].\n"
               "Definition M := Eval vm_compute in mism 0 cases.\nPrint M.\n" % ";\n  ".join(terms))
        with open(os.path.join(d, "cases.v"), "w") as f:
            f.write(src)
        rc, out = C.sh("timeout 900 coqc -Q %s FsDb cases.v" % C.COQ, cwd=d, timeout=950)
        if rc != 0:
            raise C.CheckBroken("vm_compute cross-check failed to compile:\n" + out[-3000:])
        flat = " ".join(out.split())
        if "M = [] : list nat" not in flat:
            raise C.CheckBroken("extracted model and vm_compute disagree (TCB alarm): " + flat[-500:])
        return len(terms)
    finally:
        shutil.rmtree(d, ignore_errors=True)


def distribution(cases):
    kinds, lvls, vias, lens = {}, {}, {}, {}
    maxopen = 0
    for c in cases:
        opn = 0
        for l in c.split("\n")[2:-1]:
            t = l.split()
            kinds[t[0]] = kinds.get(t[0], 0) + 1
            if t[0] == "begin":
                lvls[t[1]] = lvls.get(t[1], 0) + 1
                opn += 1
                maxopen = max(maxopen, opn)
            if t[0] in ("commit", "rollback"):
                opn = max(0, opn - 1)
            if t[0] == "set":
                vias[t[5][0]] = vias.get(t[5][0], 0) + 1
                n = int(t[4])
                b = "0" if n == 0 else "1" if n == 1 else "<2048" if n < 2048 else "2048" if n == 2048 else "<32768" if n < 32768 else "32768" if n == 32768 else ">32768"
                lens[b] = lens.get(b, 0) + 1
    return dict(op_kinds=kinds, levels=lvls, write_forms=vias, content_length_buckets=lens, max_open_transactions=maxopen)


def nontrivial_read_after_write(case):
    """a read of a key after a write of the same key"""
    written = set()
    for l in case.split("\n")[2:-1]:
        t = l.split()
        if t[0] in ("set", "del"):
            written.add(t[2])
        elif t[0] == "get" and t[2] in written:
            return True
    return False
