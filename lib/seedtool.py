#!/usr/bin/env python3
"""Confirm and evaluate seeded property-breaking changes (seeded/<id>/).

  seedtool.py confirm <dir>     in a scratch worktree: patch applies, builds, full test suite passes, demo violates with
                                the patch and holds without; writes confirm.json into <dir>
  seedtool.py eval <dir> [--tier quick|thorough] [--checks C01,C02]
                                apply the patch to /repo, run the property's check (or the listed ones), undo; writes
                                eval.json into <dir>
Nothing here is registered in MANIFEST.json; the patches are never committed to /repo."""
import json
import os
import shutil
import subprocess
import sys
import time

ROOT = os.path.dirname(os.path.dirname(os.path.abspath(__file__)))
REPO = os.environ.get("VERIF_REPO", "/repo")
ENV = dict(os.environ, GOFLAGS="-mod=mod", GOPROXY="off", GOSUMDB="off", GOTOOLCHAIN="local")


def sh(cmd, cwd=None, timeout=3600):
    p = subprocess.run(cmd, cwd=cwd, env=ENV, stdout=subprocess.PIPE, stderr=subprocess.STDOUT, text=True, timeout=timeout,
                       shell=isinstance(cmd, str))
    return p.returncode, p.stdout


def confirm(d):
    d = os.path.abspath(d)
    patch = os.path.join(d, "patch.diff")
    wt = "/tmp/seedconfirm-%d" % os.getpid()
    res = dict(patch=patch)
    rc, out = sh(["git", "-C", REPO, "worktree", "add", "--detach", wt, "HEAD", "-q"])
    assert rc == 0, out
    try:
        run = os.path.join(d, "demo", "run.sh")
        rc0, out0 = sh(["bash", run, wt], timeout=1200)
        res["demo_without_patch"] = dict(rc=rc0, tail=out0[-1500:])
        sh("git checkout -- . && git clean -fdq", cwd=wt)
        BUILD = "go build ./... 2>&1 | sort; go test -vet=off -count=1 -run '^$' ./... 2>&1 | grep -v '^ok\\|no test files' | sed 's/[0-9.]*s$//' | sort"
        _, base_build = sh(BUILD, cwd=wt)
        rc, out = sh(["git", "apply", patch], cwd=wt)
        res["applies"] = rc == 0
        if rc != 0:
            res["apply_error"] = out
            return res
        _, out = sh(BUILD, cwd=wt)
        res["builds"] = out == base_build      # the untagged build of HEAD itself reports 4 tag-only packages; must be identical
        if out != base_build:
            res["build_diff"] = out[-1500:]
        rc, out = sh("go test -json -vet=off -count=1 -timeout 25m ./... 2>/dev/null", cwd=wt, timeout=2400)
        passed, failed = set(), set()
        for l in out.split("\n"):
            try:
                ev = json.loads(l)
            except Exception:
                continue
            if ev.get("Test") and ev.get("Action") in ("pass", "fail"):
                (passed if ev["Action"] == "pass" else failed).add("%s::%s" % (ev["Package"], ev["Test"]))
        stable = set(json.load(open("/root/.vp/BASELINE.json"))["stable_pass"])
        missing = sorted(stable - passed)
        res["tests_pass"] = not missing and not (failed & stable)
        res["tests_output"] = "stable_pass=%d passed=%d failed=%d missing=%s" % (len(stable), len(passed), len(failed), missing[:10])
        rc1, out1 = sh(["bash", run, wt], timeout=1200)
        res["demo_with_patch"] = dict(rc=rc1, tail=out1[-1500:])
        res["confirmed"] = bool(res["applies"] and res["builds"] and res["tests_pass"] and rc0 == 0 and rc1 != 0)
        return res
    finally:
        sh(["git", "-C", REPO, "worktree", "remove", "--force", wt])
        shutil.rmtree(wt, ignore_errors=True)
        json.dump(res, open(os.path.join(d, "confirm.json"), "w"), indent=1)
        print(json.dumps({k: v for k, v in res.items() if k not in ("tests_output",)}, indent=1)[:3000])


def evaluate(d, tier, checks):
    d = os.path.abspath(d)
    meta = json.load(open(os.path.join(d, "meta.json")))
    checks = checks or [meta["property"]]
    rc, out = sh(["git", "-C", REPO, "status", "--porcelain"])
    assert out.strip() == "", "/repo is not clean: " + out
    rc, out = sh(["git", "-C", REPO, "apply", os.path.join(d, "patch.diff")])
    assert rc == 0, out
    res = dict(tier=tier, results={})
    try:
        for c in checks:
            t0 = time.time()
            rc, out = sh([os.path.join(ROOT, "check"), c, "--tier", tier], cwd=ROOT, timeout=7200)
            lines = [l for l in out.split("\n") if l.startswith(("VIOLATION", "KNOWN-FINDING", "CHECK-BROKEN", "BUILD-BROKEN"))]
            what = []
            for l in lines:
                if l.startswith("VIOLATION") and "replay=" in l:
                    p = l.split("replay=")[1].split()[0]
                    try:
                        what.append(json.load(open(p)).get("what", "")[:300])
                    except Exception:
                        pass
            res["results"][c] = dict(rc=rc, seconds=round(time.time() - t0, 1), caught=(rc == 1 and any(l.startswith("VIOLATION") for l in lines)),
                                     lines=[l[:300] for l in lines[:6]], what=what[:4])
    finally:
        sh(["git", "-C", REPO, "checkout", "--", "."])
        sh(["git", "-C", REPO, "clean", "-fdq"])
    p = os.path.join(d, "eval.json")
    old = json.load(open(p)) if os.path.exists(p) else {}
    old[tier] = res["results"] if tier not in old else dict(old[tier], **res["results"])
    json.dump(old, open(p, "w"), indent=1)
    print(json.dumps(res, indent=1))


def table(design=None):
    """markdown table of seeded changes x checks from the eval.json files; with a path: rewrites the marked block there"""
    rows = ["| change | what it does (one line) | own check | how it is reported | also reported by | tried, silent |", "|---|---|---|---|---|---|"]
    sd = os.path.join(ROOT, "seeded")
    for n in sorted(os.listdir(sd)):
        d = os.path.join(sd, n)
        if not os.path.exists(os.path.join(d, "meta.json")):
            continue
        meta = json.load(open(os.path.join(d, "meta.json")))
        ev = json.load(open(os.path.join(d, "eval.json"))).get("quick", {}) if os.path.exists(os.path.join(d, "eval.json")) else {}
        own = n.split("-")[0]
        o = ev.get(own)
        how = ""
        if o:
            ws = ["; ".join(map(str, w)) if isinstance(w, list) else str(w) for w in (o.get("what") or [])]
            w0 = next((w for w in ws if w), "")
            how = w0 or ("violation reported (model/implementation disagreement, see the replay file)" if o.get("caught") else "") or ("; ".join(l for l in o.get("lines", []) if l.startswith("VIOLATION"))[:80])
            if any("no-failing-input-found" in l for l in o.get("lines", [])) and "skeleton" in how:
                how = "proof obligation over the regenerated lock skeleton broken (no-failing-input-found): " + how.split("operations:")[-1].strip()
        others = sorted(c for c, r in ev.items() if c != own and r.get("caught"))
        silent = sorted(c for c, r in ev.items() if c != own and not r.get("caught"))
        title = " ".join(str(meta.get("title", "")).split()).replace("|", "/")[:110]
        rows.append("| %s | %s | %s | %s | %s | %s |" % (n, title, ("**caught**" if o and o.get("caught") else "MISSED" if o else "not run") + " (%s)" % own,
                                                   " ".join(how.split()).replace("|", "/")[:160], ", ".join(others) or "-", ", ".join(silent) or "-"))
    text = "\n".join(rows)
    if design:
        s = open(design).read()
        a, b = s.index("<!-- SEEDED-TABLE-BEGIN -->"), s.index("<!-- SEEDED-TABLE-END -->")
        s = s[:a] + "<!-- SEEDED-TABLE-BEGIN -->\n" + text + "\n" + s[b:]
        open(design, "w").write(s)
    else:
        print(text)


if __name__ == "__main__":
    if sys.argv[1] == "table":
        table(sys.argv[2] if len(sys.argv) > 2 else None)
    elif sys.argv[1] == "confirm":
        confirm(sys.argv[2])
    else:
        tier, checks = "quick", None
        a = sys.argv[3:]
        while a:
            if a[0] == "--tier":
                tier = a[1]; a = a[2:]
            elif a[0] == "--checks":
                checks = a[1].split(","); a = a[2:]
            else:
                a = a[1:]
        evaluate(sys.argv[2], tier, checks)
