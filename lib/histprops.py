"""run() bodies shared by the history-based property checks."""
import json
import os

from lib import common as C
from lib import histgen as G
from lib import histcheck as H


def corpus(name):
    p = os.path.join(C.CORPUS, name)
    if not os.path.exists(p):
        return []
    return G.split_cases(open(p).read())


def run_hist_property(rep, pid, gen, corpus_file=None, oracle="spec", known_d7=False, rule="", nontrivial=None,
                      modes=("inline",)):
    rng = C.rng_for(rep.seed, pid)
    proof_ok = C.proof_step(rep, pid)
    C.ensure_driver()
    fsdbh = C.ensure_harness()
    cases = (corpus(corpus_file) if corpus_file else [])
    ncorpus = len(cases)
    cases += gen(rng, rep.tier)
    st = None
    for mode in modes:
        st = H.check_histories(rep, fsdbh, cases, mode=mode, known_d7=known_d7, oracle=oracle)
    # vm_compute cross-check of a seeded sample
    idx = sorted(rng.sample(range(len(cases)), min(120, len(cases))))
    raw = H.run_model("hist", [cases[k] for k in idx])
    vm = H.vm_crosscheck([cases[k] for k in idx], raw)
    nt = nontrivial or H.nontrivial_read_after_write
    distinct = len({C.case_hash("\n".join(c.split("\n")[1:])) for c in cases if nt(c)})
    rep.coverage.update(
        evaluations=len(cases), operations=st.ops, reads_compared=st.reads, distinct_nontrivial=distinct,
        rule=rule, corpus_cases=ncorpus, hypothesis_H_cases=st.h_cases,
        traces_validated_against_impl=len(cases) * len(modes), impl_vs_model_mismatches=st.impl_model_mismatch,
        vm_compute_crosschecked=vm, input_distribution=H.distribution(cases),
        samples=[dict(case=cases[k].split("\n")[:14], impl=st.impl[k][:13]) for k in (0, len(cases) // 2)],
        proof_ok=proof_ok)
    return st, cases


def replay_hist(rep, path, oracle="spec"):
    p = json.load(open(path))
    fsdbh = C.ensure_harness()
    C.ensure_driver()
    c = p["case"]
    mode = p.get("mode", "inline")
    i = H.run_sharded(fsdbh, "hist", [c], extra=[mode], shards=1)[0]
    m = H.canon(c, H.run_model("hist", [c])[0])
    s = H.canon(c, H.run_model("hist-spec" if oracle == "spec" else "hist-kv", [c])[0])
    ops = [l for l in c.split("\n") if not l.startswith("keytab")]
    for k, o in enumerate(ops):
        a = i[k] if k < len(i) else "-"
        b = m[k] if k < len(m) else "-"
        d = s[k] if k < len(s) else "-"
        print("%-34s impl=%-24s model=%-24s spec=%-24s %s" % (o, a, b, d, "<<<" if not (a == b == d) else ""))
    return 0 if i == s else 1
