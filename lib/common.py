"""Shared machinery for the fs_db verification checks (see DESIGN.md section 9)."""
import fcntl
import hashlib
import json
import os
import random
import re
import shutil
import subprocess
import sys
import tempfile
import time

ROOT = os.path.dirname(os.path.dirname(os.path.abspath(__file__)))
REPO = os.environ.get("VERIF_REPO", "/repo")
COQ = os.path.join(ROOT, "coq")
OCAML = os.path.join(ROOT, "ocaml")
HARNESS = os.path.join(ROOT, "harness")
EVIDENCE = os.path.join(ROOT, "evidence")
REPLAYS = os.path.join(ROOT, "replays")
CORPUS = os.path.join(ROOT, "corpus")
FSDBH = os.path.join(HARNESS, "bin", "fsdbh")
DRIVER = os.path.join(OCAML, "gen", "driver")
NCPU = os.cpu_count() or 4

FORBIDDEN = re.compile(
    r"\b(Admitted|admit|Axiom|Axioms|Parameter|Parameters|Conjecture|Conjectures|"
    r"Unset\s+Guard|bypass_check|Admit\s+Obligations|type-in-type|impredicative-set|"
    r"Unset\s+Universe\s+Checking|Unset\s+Positivity)\b")

TRUSTED_BASE = [
    "Coq 8.16.1 kernel (coqc, full .vo build via coq_makefile; vm_compute used, native_compute not used)",
    "no axioms: every property theorem prints 'Closed under the global context' (parsed on every run)",
    "extraction: ExtrOcamlBasic only (bool, option, unit, list, prod, sumbool, sumor; inlined andb/orb); "
    "OCaml 4.13.1 + hand-written conversion shim in ocaml/driver.ml",
    "correspondence harness: harness/ (Go, built -tags verif from /repo working tree), pkg/verifapi and "
    "*_verif.go accessors in /repo, python generators/differ in lib/",
    "hand-written models in coq/*.v are tied to the code only by the correspondence run of this check",
]


def goenv():
    e = dict(os.environ)
    e.update(GOFLAGS="-mod=mod", GOPROXY="off", GOSUMDB="off", GOTOOLCHAIN="local",
             CGO_ENABLED=e.get("CGO_ENABLED", "1"))
    return e


def sh(cmd, timeout=600, cwd=None, env=None, input=None):
    """Run a command; returns (rc, stdout+stderr). rc=124 on timeout."""
    try:
        p = subprocess.run(cmd, shell=isinstance(cmd, str), cwd=cwd, env=env, input=input,
                           stdout=subprocess.PIPE, stderr=subprocess.STDOUT, timeout=timeout,
                           text=True, errors="replace")
        return p.returncode, p.stdout
    except subprocess.TimeoutExpired as ex:
        out = ex.stdout or ""
        if isinstance(out, bytes):
            out = out.decode("utf-8", "replace")
        return 124, out + "\n[timeout after %ss]" % timeout


def sh2(cmd, timeout=600, cwd=None, env=None):
    """Run a command; returns (rc, stdout, stderr) separately."""
    try:
        p = subprocess.run(cmd, shell=isinstance(cmd, str), cwd=cwd, env=env,
                           stdout=subprocess.PIPE, stderr=subprocess.PIPE, timeout=timeout,
                           text=True, errors="replace")
        return p.returncode, p.stdout, p.stderr
    except subprocess.TimeoutExpired as ex:
        return 124, (ex.stdout or b"").decode("utf-8", "replace") if isinstance(ex.stdout, bytes) else (ex.stdout or ""), "[timeout]"


class Lock:
    def __init__(self, name):
        self.path = os.path.join(ROOT, ".lock-" + name)

    def __enter__(self):
        self.f = open(self.path, "w")
        fcntl.flock(self.f, fcntl.LOCK_EX)
        return self

    def __exit__(self, *a):
        fcntl.flock(self.f, fcntl.LOCK_UN)
        self.f.close()


class CheckBroken(Exception):
    """The machinery itself failed (not a statement about fs_db)."""


class BuildBroken(Exception):
    """The harness no longer builds against /repo: correspondence broken."""


class ImplCrash(CheckBroken):
    """The harness process died with a Go panic / fatal error whose stack has an fs_db frame, or stopped answering:
    a statement about fs_db (the implementation panics or hangs on a valid input), reported as a violation by ./check."""

    def __init__(self, binary, cmd, lines, extra, stderr, kind):
        head = next((l for l in stderr.split("\n") if l.startswith(("panic:", "fatal error:"))), "")
        CheckBroken.__init__(self, "%s %s: implementation %s: %s\n%s" % (os.path.basename(binary), cmd, kind, head, stderr[-1500:]))
        self.binary, self.cmd, self.lines, self.extra, self.stderr, self.kind = binary, cmd, list(lines), list(extra), stderr, kind


def impl_crash_kind(rc, err):
    """classify a failed harness run: 'panic' if the Go runtime died inside fs_db code, 'hang' on timeout, else None"""
    if rc == 124:
        return "hang"
    if "panic:" in err or "fatal error:" in err:
        first = err.split("\n\ngoroutine ")[1] if "\n\ngoroutine " in err else err
        frames = [l for l in first.split("\n") if l.startswith("github.com/glebziz/fs_db/")]
        frames = [f for f in frames if "/internal/verifhook" not in f and "/pkg/verifapi" not in f]
        if frames or "all goroutines are asleep" in err:
            return "panic"
    return None


def isolate_crash(ex, timeout=40):
    """search for one case (a 'case..end' block or a single line) on which the harness dies the same way"""
    blocks, cur = [], []
    for l in ex.lines:
        if l.startswith("case "):
            cur = [l]
        elif cur:
            cur.append(l)
            if l == "end":
                blocks.append(cur)
                cur = []
        else:
            blocks.append([l])
    if len(blocks) <= 1:
        return ex.lines, ex.stderr
    for b in blocks[:400]:
        try:
            run_lines(ex.binary, ex.cmd, b, timeout=timeout, extra_args=ex.extra)
        except ImplCrash as e2:
            return b, e2.stderr
        except CheckBroken:
            continue
    return ex.lines, ex.stderr


# --------------------------------------------------------------------------
# Coq side

def strip_comments(src):
    out, depth, i = [], 0, 0
    while i < len(src):
        if src.startswith("(*", i):
            depth += 1
            i += 2
        elif src.startswith("*)", i) and depth > 0:
            depth -= 1
            i += 2
        else:
            if depth == 0:
                out.append(src[i])
            i += 1
    return "".join(out)


def forbidden_scan():
    bad = []
    for d, _, fs in os.walk(COQ):
        for f in fs:
            if f.endswith(".v"):
                p = os.path.join(d, f)
                src = strip_comments(open(p).read())
                for m in FORBIDDEN.finditer(src):
                    bad.append("%s: %s" % (os.path.relpath(p, ROOT), m.group(0)))
    return bad


def ensure_coq():
    """Full .vo build (no-op when fresh)."""
    with Lock("coq"):
        if not os.path.exists(os.path.join(COQ, "Makefile")):
            rc, out = sh("coq_makefile -f _CoqProject -o Makefile", cwd=COQ, timeout=60)
            if rc != 0:
                raise CheckBroken("coq_makefile failed:\n" + out)
        rc, out = sh("timeout 3000 make -j%d" % NCPU, cwd=COQ, timeout=3100)
        if rc != 0:
            raise CheckBroken("coq build failed:\n" + out[-4000:])


def check_property_file(pid, extra_files=()):
    """Re-compile Properties/<pid>.v from scratch, parse Print Assumptions.
    Returns dict(obligations, discharged, theorems, assumptions_output, checker_cmd)."""
    bad = forbidden_scan()
    if bad:
        raise CheckBroken("forbidden tokens in coq/: " + "; ".join(bad))
    ensure_coq()
    vfile = os.path.join(COQ, "Properties", pid + ".v")
    src = strip_comments(open(vfile).read())
    theorems = re.findall(r"\b(?:Theorem|Corollary)\s+([A-Za-z0-9_']+)", src)
    examples = re.findall(r"\bExample\s+([A-Za-z0-9_']+)", src)
    prints = [p.rstrip('.') for p in re.findall(r"Print\s+Assumptions\s+([A-Za-z0-9_'.]+)", src)]
    missing = [t for t in theorems if t not in prints]
    if missing:
        raise CheckBroken("theorems without Print Assumptions in %s: %s" % (pid, missing))
    with Lock("coq"):
        for ext in (".vo", ".vok", ".vos", ".glob"):
            try:
                os.remove(vfile[:-2] + ext)
            except FileNotFoundError:
                pass
        cmd = "timeout 900 coqc -Q . FsDb Properties/%s.v" % pid
        rc, out = sh(cmd, cwd=COQ, timeout=950)
    if rc != 0:
        return dict(ok=False, output=out, theorems=theorems, checker_cmd=cmd)
    closed = out.count("Closed under the global context")
    axioms = []
    if "Axioms:" in out:
        # collect axiom names printed after 'Axioms:' blocks
        for blk in out.split("Axioms:")[1:]:
            for line in blk.splitlines()[1:]:
                m = re.match(r"^([A-Za-z0-9_.']+)\s*:", line)
                if m:
                    axioms.append(m.group(1))
                elif line.strip() == "" or line.startswith("Closed"):
                    break
    return dict(ok=True, output=out, theorems=theorems, examples=examples,
                obligations=len(theorems), discharged=len(theorems) if closed + 0 >= 0 else 0,
                closed=closed, prints=len(prints), axioms=sorted(set(axioms)), checker_cmd=
                "make -C coq (coq_makefile, full .vo) && coqc -Q . FsDb Properties/%s.v" % pid)


def ensure_driver():
    with Lock("ocaml"):
        srcs = [os.path.join(OCAML, "driver.ml")]
        for d, _, fs in os.walk(COQ):
            srcs += [os.path.join(d, f) for f in fs if f.endswith(".v")]
        newest = max(os.path.getmtime(s) for s in srcs)
        if os.path.exists(DRIVER) and os.path.getmtime(DRIVER) >= newest:
            return
        ensure_coq()
        rc, out = sh("timeout 600 ./build.sh", cwd=OCAML, timeout=650)
        if rc != 0:
            raise CheckBroken("ocaml driver build failed:\n" + out[-4000:])


def ensure_harness(race=False):
    """Build fsdbh from /repo's working tree with -tags verif."""
    with Lock("harness"):
        rc, out = sh(["sh", os.path.join(HARNESS, "mkmod.sh")], env=dict(os.environ, VERIF_REPO=REPO), timeout=60)
        if rc != 0:
            raise CheckBroken("harness/mkmod.sh failed: " + out)
        out_bin = FSDBH + ("-race" if race else "")
        cmd = ["go", "build", "-tags", "verif"] + (["-race"] if race else []) + ["-o", out_bin, "."]
        rc, out = sh(cmd, cwd=HARNESS, env=goenv(), timeout=900)
        if rc != 0:
            raise BuildBroken(out[-6000:])
        return out_bin


# --------------------------------------------------------------------------
# running tools on case lines

def run_lines(binary, cmd, lines, timeout=600, extra_args=(), env=None):
    d = tempfile.mkdtemp(prefix="verif-")
    try:
        p = os.path.join(d, "cases.txt")
        with open(p, "w") as f:
            f.write("\n".join(lines) + "\n")
        rc, out, err = sh2([binary, cmd, p] + list(extra_args), timeout=timeout, env=env)
        if rc != 0:
            kind = impl_crash_kind(rc, err) if os.path.basename(binary).startswith("fsdbh") else None
            if kind:
                raise ImplCrash(binary, cmd, lines, extra_args, err, kind)
            raise CheckBroken("%s %s failed rc=%s: %s" % (os.path.basename(binary), cmd, rc, (err or out)[-3000:]))
        res = [l for l in out.split("\n") if l.strip() != ""]
        return res
    finally:
        shutil.rmtree(d, ignore_errors=True)


def ddmin(items, fails):
    """Delta-debugging: minimal sub-list of items for which fails(sub) is True."""
    n = 2
    items = list(items)
    if not fails(items):
        return items
    while len(items) >= 2:
        chunk = max(1, len(items) // n)
        reduced = False
        for i in range(0, len(items), chunk):
            cand = items[:i] + items[i + chunk:]
            if cand and fails(cand):
                items = cand
                n = max(n - 1, 2)
                reduced = True
                break
        if not reduced:
            if chunk == 1:
                break
            n = min(len(items), n * 2)
    return items


# --------------------------------------------------------------------------
# known findings, evidence, reporting

def known_findings(pid):
    p = os.path.join(ROOT, "known_findings.json")
    if not os.path.exists(p):
        return []
    return [e for e in json.load(open(p)) if e.get("property") == pid]


def write_replay(pid, payload):
    os.makedirs(REPLAYS, exist_ok=True)
    h = hashlib.sha1(json.dumps(payload, sort_keys=True).encode()).hexdigest()[:12]
    p = os.path.join(REPLAYS, "%s-%s.json" % (pid, h))
    with open(p, "w") as f:
        json.dump(payload, f, indent=1, sort_keys=True)
    return p


class Report:
    def __init__(self, pid, tier, seed):
        self.pid, self.tier, self.seed = pid, tier, seed
        self.t0 = time.time()
        self.violations = []   # (replay_path, no_input_found)
        self.known = []
        self.coverage = {}
        self.assumptions = []

    def violation(self, payload, no_input=False):
        payload = dict(payload)
        payload.setdefault("property", self.pid)
        payload.setdefault("seed", self.seed)
        payload.setdefault("tier", self.tier)
        path = write_replay(self.pid, payload)
        self.violations.append((path, no_input))
        print("VIOLATION property=%s replay=%s%s" % (self.pid, path, " no-failing-input-found" if no_input else ""))
        sys.stdout.flush()

    def known_finding(self, what):
        self.known.append(what)
        print("KNOWN-FINDING: property=%s %s" % (self.pid, what))
        sys.stdout.flush()

    def finish(self):
        os.makedirs(EVIDENCE, exist_ok=True)
        cov = dict(self.coverage)
        cov.setdefault("trusted_base", TRUSTED_BASE)
        ev = dict(property_id=self.pid, tier=self.tier, seed=self.seed, level="proof",
                  coverage=cov, assumptions=self.assumptions,
                  wall_s=round(time.time() - self.t0, 2), violations=len(self.violations),
                  known_findings=self.known)
        tmp = os.path.join(EVIDENCE, "." + self.pid + ".tmp")
        with open(tmp, "w") as f:
            json.dump(ev, f, indent=1)
        os.replace(tmp, os.path.join(EVIDENCE, self.pid + ".json"))
        return 1 if self.violations else 0


def proof_step(rep, pid):
    """Compile the property file; on failure report as broken proof obligation."""
    r = check_property_file(pid)
    if not r["ok"]:
        rep.coverage.update(obligations=max(1, len(r["theorems"])), discharged=0,
                            checker_cmd=r["checker_cmd"])
        rep.violation(dict(kind="proof-broken", theorem_file="coq/Properties/%s.v" % pid,
                           coqc_output=r["output"][-6000:]), no_input=True)
        return False
    if r["axioms"]:
        allowed = set()
        extra = [a for a in r["axioms"] if a not in allowed]
        if extra:
            raise CheckBroken("unexpected axioms under %s: %s" % (pid, extra))
    if r["closed"] != r["prints"]:
        raise CheckBroken("Print Assumptions: %d closed of %d" % (r["closed"], r["prints"]))
    rep.coverage.update(obligations=r["obligations"], discharged=r["discharged"],
                        checker_cmd=r["checker_cmd"], theorems=r["theorems"],
                        examples=r.get("examples", []),
                        print_assumptions="%d/%d 'Closed under the global context'" % (r["closed"], r["prints"]))
    if rep.tier == "thorough":
        rep.coverage["coqchk"] = coqchk(pid)
    return True


def coqchk(pid):
    """independent re-check of the compiled property file and everything it depends on (thorough tier)"""
    t0 = time.time()
    with Lock("coq"):
        rc, out = sh("timeout 5400 coqchk -silent -o -Q . FsDb FsDb.Properties.%s" % pid, cwd=COQ, timeout=5500)
    if rc != 0:
        raise CheckBroken("coqchk failed on Properties/%s: %s" % (pid, out[-2000:]))
    res = {}
    for key, pat in (("axioms", "Axioms"), ("type_in_type", "relying on type-in-type"),
                     ("unsafe_fixpoints", "relying on unsafe"), ("assumed_positivity", "positivity is assumed")):
        m = re.search(r"\* [^\n]*%s[^\n]*:\s*(.*?)\n\s*\n" % pat, out + "\n\n", re.S)
        res[key] = " ".join(m.group(1).split()) if m else "?"
    bad = {k: v for k, v in res.items() if v != "<none>"}
    if bad:
        raise CheckBroken("coqchk reports %s under Properties/%s" % (bad, pid))
    res["seconds"] = round(time.time() - t0, 1)
    res["cmd"] = "coqchk -silent -o -Q . FsDb FsDb.Properties.%s" % pid
    return res


def rng_for(seed, tag):
    return random.Random("%s/%s" % (seed, tag))


def case_hash(s):
    return hashlib.sha1(s.encode()).hexdigest()
