#!/bin/sh
# usage: confirm_many.sh dir1 dir2 ...   (runs confirmations in parallel, waits)
for d in "$@"; do
  python3 /verif/lib/seedtool.py confirm $d > $d/confirm.log 2>&1 &
  sleep 1
done
wait
for d in "$@"; do
  python3 - "$d" <<'PY'
import json,sys
d=sys.argv[1]
try:
    r=json.load(open(d+'/confirm.json'))
    print(d, {k:r.get(k) for k in ('applies','builds','tests_pass','confirmed')}, r['demo_without_patch']['rc'], r.get('demo_with_patch',{}).get('rc'), r.get('tests_output','')[:150])
except Exception as e:
    print(d,'ERR',e)
PY
done
